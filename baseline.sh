#!/bin/bash
# Runs the repository's own test suite with the verif guard OFF and compares with /root/.vp/BASELINE.json.
set -u
export GOFLAGS=-mod=mod GOPROXY=off GOSUMDB=off GOTOOLCHAIN=local
cd /repo && go test -json -vet=off -count=1 -timeout 25m ./... > /verif/bin/baseline.json 2>/dev/null
python3 - <<'PY'
import json
passed=set()
for l in open('/verif/bin/baseline.json'):
    try: e=json.loads(l)
    except Exception: continue
    if e.get('Action')=='pass' and e.get('Test'): passed.add(e['Package']+'::'+e['Test'])
b=json.load(open('/root/.vp/BASELINE.json'))
missing=[t for t in b['stable_pass'] if t not in passed]
print('baseline stable_pass: %d, passed now: %d, missing: %d'%(len(b['stable_pass']),len(passed),len(missing)))
for t in missing[:20]: print('  MISSING',t)
raise SystemExit(1 if missing else 0)
PY
