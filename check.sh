#!/bin/bash
# usage: ./check.sh <property id> <quick|thorough>
# exit 0: property held on everything explored; 1: VIOLATION line(s); 2: the check could not do its job
# Rebuilds the harness against /repo's current working tree (replace directive) with -tags verif on every call.
set -u
cd "$(dirname "$0")"
VERIF=$(pwd)
ID=${1:?property id}; TIER=${2:-${VERIF_TIER:-quick}}
export GOFLAGS=-mod=mod GOPROXY=off GOSUMDB=off GOTOOLCHAIN=local
export VERIF_DIR=$VERIF VERIF_REPO=${VERIF_REPO:-/repo}
GO=go1.26.8
mkdir -p bin evidence replays
cat "$VERIF_REPO/go.sum" sim/go.sum.extra 2>/dev/null | sort -u > sim/go.sum.$$ && mv -f sim/go.sum.$$ sim/go.sum
MODFILE=""
if [ "$VERIF_REPO" != /repo ]; then
  sed "s#=> /repo#=> $VERIF_REPO#" sim/go.mod > bin/alt-$$.mod; cp sim/go.sum bin/alt-$$.sum; MODFILE="-modfile=$VERIF/bin/alt-$$.mod"
fi
trap 'rm -f bin/alt-$$.mod bin/alt-$$.sum' EXIT

# run_prop <prop id> <race flag or ""> : builds and runs one master; returns its exit code
run_prop() {
  local P=$1 RACE=$2 BIN=$VERIF/bin/sim-$1-$$.test
  if [ -n "$RACE" ]; then export CGO_ENABLED=1; else export CGO_ENABLED=0; fi
  if ! (cd sim && $GO test $MODFILE -tags verif $RACE -c -o "$BIN" . ) > bin/build-$P-$$.log 2>&1; then
    echo "BUILD FAILED (exit 2); compiler output:"; cat bin/build-$P-$$.log; rm -f bin/build-$P-$$.log
    return 2
  fi
  rm -f bin/build-$P-$$.log
  SIM_ROLE=master SIM_PROP=$P SIM_TIER=$TIER SIM_SEED=${VERIF_SEED:-1} "$BIN"
  local rc=$?
  rm -f "$BIN"
  return $rc
}

if [ "$ID" != C14 ]; then
  run_prop "$ID" ""
  exit $?
fi

# C14 = part A (deterministic isolation histories) + part B (real threads under the race detector)
rm -f evidence/C14R.json
run_prop C14 ""; rcA=$?
SIM_REPORT_AS=C14 GORACE="halt_on_error=1 exitcode=66" SIM_WORKERS=${SIM_WORKERS_RACE:-4} SIM_GOMAXPROCS=8 run_prop C14R -race; rcB=$?
if [ -z "${SIM_NO_EVIDENCE:-}" ] && [ -f evidence/C14.json ] && [ -f evidence/C14R.json ]; then
  python3 - <<'PY'
import json
a=json.load(open('evidence/C14.json')); b=json.load(open('evidence/C14R.json'))
a['coverage']['part_b_race']=b['coverage']
a['coverage']['part_b_race']['wall_s']=b['wall_s']
a['coverage']['part_b_race']['violations']=b.get('violations',0)
a['violations']=a.get('violations',0)+b.get('violations',0)
a['wall_s']=a['wall_s']+b['wall_s']
json.dump(a,open('evidence/C14.json','w'),indent=1)
PY
fi
rm -f evidence/C14R.json
if [ $rcA -eq 1 ] || [ $rcB -eq 1 ]; then exit 1; fi
if [ $rcA -ne 0 ] || [ $rcB -ne 0 ]; then exit 2; fi
exit 0
