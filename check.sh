#!/bin/bash
# usage: ./check.sh <property id> <quick|thorough>
# exit 0: property held on everything explored; 1: VIOLATION line(s); 2: the check could not do its job
set -u
cd "$(dirname "$0")"
VERIF=$(pwd)
ID=${1:?property id}; TIER=${2:-${VERIF_TIER:-quick}}
export GOFLAGS=-mod=mod GOPROXY=off GOSUMDB=off GOTOOLCHAIN=local CGO_ENABLED=0
export VERIF_DIR=$VERIF VERIF_REPO=${VERIF_REPO:-/repo}
GO=go1.26.8
mkdir -p bin evidence replays
cat "$VERIF_REPO/go.sum" sim/go.sum.extra 2>/dev/null | sort -u > sim/go.sum.$$ && mv -f sim/go.sum.$$ sim/go.sum
MODFILE=""
if [ "$VERIF_REPO" != /repo ]; then
  sed "s#=> /repo#=> $VERIF_REPO#" sim/go.mod > bin/alt-$$.mod; cp sim/go.sum bin/alt-$$.sum; MODFILE="-modfile=$VERIF/bin/alt-$$.mod"
fi
BIN=$VERIF/bin/sim-$ID-$$.test
RACE=""
case "$ID" in C14R) RACE="-race"; export CGO_ENABLED=1;; esac
if ! (cd sim && $GO test $MODFILE -tags verif $RACE -c -o "$BIN" . ) > bin/build-$ID-$$.log 2>&1; then
  echo "BUILD FAILED (exit 2); compiler output:"; cat bin/build-$ID-$$.log; rm -f bin/build-$ID-$$.log bin/alt-$$.mod bin/alt-$$.sum
  exit 2
fi
rm -f bin/build-$ID-$$.log bin/alt-$$.mod bin/alt-$$.sum
SIM_ROLE=master SIM_PROP=$ID SIM_TIER=$TIER SIM_SEED=${VERIF_SEED:-1} "$BIN"
rc=$?
rm -f "$BIN"
exit $rc
