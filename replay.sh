#!/bin/bash
# usage: ./replay.sh <replay file>   — re-executes exactly that tape in a fresh process against /repo's working tree
# exit 1 if the recorded violation shows again (prints it), 0 if it does not, 2 on trouble
set -u
cd "$(dirname "$0")"
VERIF=$(pwd)
F=$(readlink -f "${1:?replay file}")
export GOFLAGS=-mod=mod GOPROXY=off GOSUMDB=off GOTOOLCHAIN=local CGO_ENABLED=0
mkdir -p bin
REPO=${VERIF_REPO:-/repo}   # (VERIF_REPO: a scratch copy of the repository, used by this directory's own sensitivity scripts)
MODFILE=""
if [ "$REPO" != /repo ]; then
  sed "s#=> /repo#=> $REPO#" sim/go.mod > bin/alt-replay-$$.mod; cat "$REPO/go.sum" sim/go.sum.extra 2>/dev/null | sort -u > bin/alt-replay-$$.sum; MODFILE="-modfile=$VERIF/bin/alt-replay-$$.mod"
  trap 'rm -f bin/alt-replay-$$.mod bin/alt-replay-$$.sum' EXIT
else
  cat /repo/go.sum sim/go.sum.extra 2>/dev/null | sort -u > sim/go.sum
fi
BIN=$VERIF/bin/replay-$$.test
RACE=""; CPU=1
if grep -q "\"property\": \"C14R\"" "$F" 2>/dev/null; then RACE="-race"; CPU=8; export CGO_ENABLED=1 GORACE="halt_on_error=1 exitcode=66"; fi
if ! (cd sim && go1.26.8 test $MODFILE -tags verif $RACE -c -o "$BIN" .) > bin/replay-build-$$.log 2>&1; then cat bin/replay-build-$$.log; rm -f bin/replay-build-$$.log; exit 2; fi
rm -f bin/replay-build-$$.log
OUT=$(SIM_ROLE=replay SIM_FILE="$F" SIM_VERBOSE=1 GOMAXPROCS=2 "$BIN" -test.run "^TestSim$" -test.timeout 0 -test.cpu $CPU 2>&1)
rm -f "$BIN"
echo "$OUT" | grep -v '^\(PASS\|ok\|--- \|=== \)'
WANT=$(python3 -c "import json,sys;d=json.load(open(sys.argv[1]));print('REPLAY-RESULT class=%s signature=%s'%(d['class'],d['signature']))" "$F")
if echo "$OUT" | grep -qxF "$WANT"; then
  echo "VIOLATION property=$(python3 -c "import json,sys;print(json.load(open(sys.argv[1]))['property'])" "$F") replay=$F"
  exit 1
fi
if echo "$OUT" | grep -q '^REPLAY-RESULT'; then echo "recorded violation did not show again"; exit 0; fi
exit 2
