#!/bin/bash
# usage: selftest/determinism.sh <id> [scale permille of the quick tier, default 300]
# Runs the same VERIF_SEED-derived runs in several process layouts (worker counts 1/7/16/32, GOMAXPROCS 1/2/4/16,
# two seeds) and diffs the per-run event-log hashes. Any difference = harness nondeterminism (exit 2).
set -u
cd "$(dirname "$0")/.."
VERIF=$(pwd)
ID=${1:?id}; SCALE=${2:-300}
export GOFLAGS=-mod=mod GOPROXY=off GOSUMDB=off GOTOOLCHAIN=local CGO_ENABLED=0 VERIF_DIR=$VERIF
mkdir -p bin
cat /repo/go.sum sim/go.sum.extra 2>/dev/null | sort -u > sim/go.sum
BIN=$VERIF/bin/det-$ID-$$.test
(cd sim && go1.26.8 test -tags verif -c -o "$BIN" .) || exit 2
rc=0
for seed in 1 77; do
  ref=""
  for layout in "1 1" "7 2" "16 4" "32 16" "16 1" "5 16"; do
    set -- $layout
    f=$VERIF/bin/det-$ID-$seed-$1-$2.txt
    SIM_ROLE=master SIM_PROP=$ID SIM_TIER=quick SIM_SEED=$seed SIM_WORKERS=$1 SIM_GOMAXPROCS=$2 SIM_SCALE_PERMILLE=$SCALE SIM_LOGHASH=$f SIM_NO_EVIDENCE=1 "$BIN" > $f.out 2>&1
    if [ -z "$ref" ]; then ref=$f; echo "seed $seed: reference layout workers=$1 GOMAXPROCS=$2: $(wc -l < $f) runs"; continue; fi
    if ! cmp -s $ref $f; then echo "DIFFERENT: seed $seed workers=$1 GOMAXPROCS=$2: $(diff $ref $f | grep -c '^<') runs differ, e.g. $(diff $ref $f | head -3 | tr '\n' ' ')"; rc=2; else echo "same: seed $seed workers=$1 GOMAXPROCS=$2"; fi
  done
done
rm -f "$BIN" $VERIF/bin/det-$ID-*.txt $VERIF/bin/det-$ID-*.out
exit $rc
