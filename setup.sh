#!/bin/bash
# Builds the framework once from files on disk only (offline). Warms the Go build cache for go1.26.8
# (plain and -race std library) so that later checks rebuild in seconds.
set -e
cd "$(dirname "$0")"
export GOFLAGS=-mod=mod GOPROXY=off GOSUMDB=off GOTOOLCHAIN=local
mkdir -p bin evidence replays
cat /repo/go.sum sim/go.sum.extra 2>/dev/null | sort -u > sim/go.sum
(cd sim && CGO_ENABLED=0 go1.26.8 test -tags verif -c -o ../bin/warm.test . && rm -f ../bin/warm.test)
(cd sim && CGO_ENABLED=1 go1.26.8 test -tags verif -race -c -o ../bin/warm-race.test . && rm -f ../bin/warm-race.test) || echo "warning: race build failed (C14 part B will report exit 2)"
echo setup ok
