module verif/sim

go 1.26.8

require (
	github.com/anishathalye/porcupine v1.3.0
	github.com/ichiban/prolog v0.0.0
)

replace github.com/ichiban/prolog => /repo
