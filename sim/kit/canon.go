package kit

import (
	"fmt"
	"strconv"
	"strings"
	"unicode"

	"github.com/ichiban/prolog/engine"
)

// Renamer names variables _A, _B, ... in order of first occurrence within one observation.
type Renamer struct {
	names map[engine.Variable]string
}

func NewRenamer() *Renamer { return &Renamer{names: map[engine.Variable]string{}} }

func (r *Renamer) name(v engine.Variable) string {
	if n, ok := r.names[v]; ok {
		return n
	}
	i := len(r.names)
	n := "_" + string(rune('A'+i%26))
	if i >= 26 {
		n += strconv.Itoa(i / 26)
	}
	r.names[v] = n
	return n
}

// CanonTerm renders a term resolved in env in a canonical, process independent way.
func CanonTerm(t engine.Term, env *engine.Env, r *Renamer) string {
	var sb strings.Builder
	canon(&sb, t, env, r, 0)
	return sb.String()
}

// AtomText renders an atom name the way CanonTerm does.
func AtomText(s string) string { return atomText(s) }

func atomText(s string) string {
	if s == "" {
		return "''"
	}
	if s == "[]" || s == "{}" || s == "!" || s == ";" || s == "," {
		if s == "," {
			return "','"
		}
		return s
	}
	plain := unicode.IsLower(rune(s[0]))
	if plain {
		for _, c := range s {
			if !(c == '_' || unicode.IsLetter(c) || unicode.IsDigit(c)) || c > 127 {
				plain = false
				break
			}
		}
	}
	if plain {
		return s
	}
	sym := true
	for _, c := range s {
		if !strings.ContainsRune(`+-*/\^<>=~:.?@#&$`, c) {
			sym = false
			break
		}
	}
	if sym {
		return s
	}
	return "'" + strings.NewReplacer(`\`, `\\`, `'`, `\'`, "\n", `\n`, "\t", `\t`).Replace(s) + "'"
}

func canon(sb *strings.Builder, t engine.Term, env *engine.Env, r *Renamer, depth int) {
	if depth > 200 {
		sb.WriteString("...")
		return
	}
	switch t := env.Resolve(t).(type) {
	case engine.Variable:
		sb.WriteString(r.name(t))
	case engine.Atom:
		sb.WriteString(atomText(t.String()))
	case engine.Integer:
		sb.WriteString(strconv.FormatInt(int64(t), 10))
	case engine.Float:
		sb.WriteString(strconv.FormatFloat(float64(t), 'g', -1, 64))
		if float64(t) == float64(int64(t)) {
			sb.WriteString(".0")
		}
	case *engine.Stream:
		sb.WriteString("<stream>")
	case engine.Compound:
		f := t.Functor().String()
		if f == "." && t.Arity() == 2 {
			sb.WriteByte('[')
			var cur engine.Term = t
			first := true
			n := 0
			for {
				c, ok := env.Resolve(cur).(engine.Compound)
				if !ok || c.Functor().String() != "." || c.Arity() != 2 {
					break
				}
				if !first {
					sb.WriteByte(',')
				}
				first = false
				canon(sb, c.Arg(0), env, r, depth+1)
				cur = c.Arg(1)
				n++
				if n > 10000 {
					sb.WriteString("|...")
					break
				}
			}
			if a, ok := env.Resolve(cur).(engine.Atom); !ok || a.String() != "[]" {
				sb.WriteByte('|')
				canon(sb, cur, env, r, depth+1)
			}
			sb.WriteByte(']')
			return
		}
		sb.WriteString(atomText(f))
		sb.WriteByte('(')
		for i := 0; i < t.Arity(); i++ {
			if i > 0 {
				sb.WriteByte(',')
			}
			canon(sb, t.Arg(i), env, r, depth+1)
		}
		sb.WriteByte(')')
	default:
		fmt.Fprintf(sb, "<%T>", t)
	}
}

// Canon is a prolog.Scanner that stores the canonical text of the scanned term.
// Fields of one destination struct share a Renamer through R so that variable names are
// consistent within one answer.
type Canon struct {
	S string
	R *Renamer
}

func (c *Canon) Scan(_ *engine.VM, term engine.Term, env *engine.Env) error {
	r := c.R
	if r == nil {
		r = NewRenamer()
	}
	c.S = CanonTerm(term, env, r)
	return nil
}

// Vars is a generic destination for Solutions.Scan: queries use variable names from this set.
type Vars struct {
	A, B, C, D, E, F, G, H, K, L, N, P, Q, R, S, T, X, Y, Z Canon
}

// NewVars returns a destination whose fields share one renamer.
func NewVars() *Vars {
	v := &Vars{}
	r := NewRenamer()
	for _, c := range v.all() {
		c.R = r
		c.S = ""
	}
	return v
}

func (v *Vars) all() []*Canon {
	return []*Canon{&v.A, &v.B, &v.C, &v.D, &v.E, &v.F, &v.G, &v.H, &v.K, &v.L, &v.N, &v.P, &v.Q, &v.R, &v.S, &v.T, &v.X, &v.Y, &v.Z}
}

var varNames = []string{"A", "B", "C", "D", "E", "F", "G", "H", "K", "L", "N", "P", "Q", "R", "S", "T", "X", "Y", "Z"}

// String lists the fields that were set, in a fixed order: "A=1 B=f(_A)".
func (v *Vars) String() string {
	var parts []string
	for i, c := range v.all() {
		if c.S != "" {
			parts = append(parts, varNames[i]+"="+c.S)
		}
	}
	return strings.Join(parts, " ")
}

// Get returns the canonical text bound to a variable name ("" if not scanned).
func (v *Vars) Get(name string) string {
	for i, n := range varNames {
		if n == name {
			return v.all()[i].S
		}
	}
	return ""
}

// CanonErr renders an error: the formal part of an Exception's term, else go:<text class>.
func CanonErr(err error) string {
	if err == nil {
		return "nil"
	}
	if e, ok := err.(engine.Exception); ok {
		t := e.Term()
		if c, ok := t.(engine.Compound); ok && c.Functor().String() == "error" && c.Arity() == 2 {
			return "error(" + CanonTerm(c.Arg(0), nil, NewRenamer()) + ",_)"
		}
		return "ball(" + CanonTerm(t, nil, NewRenamer()) + ")"
	}
	return "go:" + err.Error()
}
