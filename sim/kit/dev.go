package kit

import (
	"errors"
	"io"
	"io/fs"
	"sort"
	"time"
)

// ErrSimIO is the error injected by simulated devices.
var ErrSimIO = errors.New("simulated I/O error")

// Reader profiles (a tape choice per run).
const (
	ChunkFull  = iota // as much as the caller asks for
	ChunkSmall        // 1..7 bytes
	ChunkByte         // one byte at a time
	NumChunkProfiles
)

// ReaderConfig says what a SimReader may do.
type ReaderConfig struct {
	Profile     int
	EOFWithData bool // deliver the final bytes together with io.EOF
	EmptyReads  bool // occasionally return (0, nil)
	Transient   bool // occasionally fail once with ErrSimIO (only where Boundary says it is allowed)
	DeadAt      int  // >0: every read at or after this source offset fails
}

// SimReader is a host reader over fixed bytes whose chunking, EOF style and faults are decided by a tape lane.
type SimReader struct {
	Src      []byte
	Segs     []int // end offsets of segments made available one by one with Feed; last must be len(Src)
	Cfg      ReaderConfig
	Lane     *Lane
	Run      *Run
	Boundary func(off int) bool // may a transient error be injected at this offset (rune boundary)?

	off      int
	seg      int
	empties  int
	eofSent  bool
	Reads    int
	Closed   int
	SawSplit bool
}

func (d *SimReader) segEnd() int {
	if len(d.Segs) == 0 {
		return len(d.Src)
	}
	return d.Segs[d.seg]
}

func (d *SimReader) Offset() int { return d.off }

// Feed makes the next segment available (more input after an end of file, as on a terminal or a growing file).
func (d *SimReader) Feed() bool {
	if d.seg < len(d.Segs)-1 {
		d.seg++
		d.eofSent = false
		d.fault("more-after-eof")
		return true
	}
	return false
}

func (d *SimReader) Read(p []byte) (int, error) {
	d.Reads++
	if d.Run != nil {
		d.Run.Steps(1)
	}
	if len(p) == 0 {
		return 0, nil
	}
	if d.Cfg.DeadAt > 0 && d.off >= d.Cfg.DeadAt && (d.Boundary == nil || d.Boundary(d.off)) {
		d.fault("read-dead")
		return 0, ErrSimIO
	}
	end := d.segEnd()
	if d.off >= end {
		// at the end of what is available: EOF is a state, it is reported until Feed makes more available
		d.eofSent = true
		d.probe("eof-after")
		return 0, io.EOF
	}
	if d.Cfg.EmptyReads && d.empties < 2 && d.Lane.Choose(8) == 7 {
		d.empties++
		d.fault("empty-read")
		return 0, nil
	}
	d.empties = 0
	if d.Cfg.Transient && (d.Boundary == nil || d.Boundary(d.off)) && d.Lane.Choose(10) == 9 {
		d.fault("read-transient")
		return 0, ErrSimIO
	}
	max := end - d.off
	if max > len(p) {
		max = len(p)
	}
	n := max
	switch d.Cfg.Profile {
	case ChunkSmall:
		n = 1 + d.Lane.Choose(7)
	case ChunkByte:
		n = 1
	}
	if n > max {
		n = max
	}
	copy(p, d.Src[d.off:d.off+n])
	d.off += n
	if d.off < end && d.Src[d.off]&0xC0 == 0x80 {
		d.SawSplit = true
		d.probe("rune-split-across-reads")
	}
	if d.off == end && d.Cfg.EOFWithData && (len(d.Segs) == 0 || d.seg == len(d.Segs)-1) {
		d.eofSent = true
		d.probe("eof-with-data")
		return n, io.EOF
	}
	return n, nil
}

func (d *SimReader) Close() error { d.Closed++; return nil }

func (d *SimReader) fault(k string) {
	if d.Run != nil {
		d.Run.Fault(k)
	}
}
func (d *SimReader) probe(k string) {
	if d.Run != nil {
		d.Run.Probe(k)
	}
}

// WriterConfig says what a SimWriter may do.
type WriterConfig struct {
	FailAt  int // >0: the FailAt-th Write call fails before writing anything
	ShortAt int // >0: the ShortAt-th Write call writes a strict prefix and fails ("disk full")
	DeadAt  int // >0: every Write call from the DeadAt-th on fails
}

// SimWriter is a host writer collecting bytes, with injected failures.
type SimWriter struct {
	Sink   []byte
	Cfg    WriterConfig
	Lane   *Lane
	Run    *Run
	Writes int
	Closed int
	// FailedWrites records (offset in Sink, bytes offered, bytes taken) of failed writes.
	Failed [][3]int
}

func (w *SimWriter) Write(p []byte) (int, error) {
	w.Writes++
	if w.Run != nil {
		w.Run.Steps(1)
	}
	switch {
	case w.Cfg.DeadAt > 0 && w.Writes >= w.Cfg.DeadAt:
		w.Failed = append(w.Failed, [3]int{len(w.Sink), len(p), 0})
		w.Run.Fault("write-dead")
		return 0, ErrSimIO
	case w.Cfg.FailAt > 0 && w.Writes == w.Cfg.FailAt:
		w.Failed = append(w.Failed, [3]int{len(w.Sink), len(p), 0})
		w.Run.Fault("write-fail-before")
		return 0, ErrSimIO
	case w.Cfg.ShortAt > 0 && w.Writes == w.Cfg.ShortAt && len(p) > 0:
		n := 0
		if len(p) > 1 {
			n = w.Lane.Choose(len(p))
		}
		w.Failed = append(w.Failed, [3]int{len(w.Sink), len(p), n})
		w.Sink = append(w.Sink, p[:n]...)
		w.Run.Fault("write-short")
		return n, ErrSimIO
	}
	w.Sink = append(w.Sink, p...)
	return len(p), nil
}

func (w *SimWriter) Close() error { w.Closed++; return nil }

// SimFS is an in-memory fs.FS with injectable open/read failures.
type SimFS struct {
	Files    map[string][]byte
	OpenErr  map[string]error // Open of this name fails with this error
	ReadErr  map[string]int   // reading this file fails with ErrSimIO once this many bytes were delivered (0 = at the first read)
	Lane     *Lane
	Run      *Run
	Profile  int
	Opens    map[string]int
	OpenHook func(name string)
}

func NewSimFS(r *Run, lane *Lane) *SimFS {
	return &SimFS{Files: map[string][]byte{}, OpenErr: map[string]error{}, ReadErr: map[string]int{}, Lane: lane, Run: r, Opens: map[string]int{}}
}

func (f *SimFS) Open(name string) (fs.File, error) {
	f.Opens[name]++
	if f.OpenHook != nil {
		f.OpenHook(name)
	}
	if err, ok := f.OpenErr[name]; ok {
		if f.Run != nil {
			f.Run.Fault("open-error")
		}
		return nil, &fs.PathError{Op: "open", Path: name, Err: err}
	}
	b, ok := f.Files[name]
	if !ok {
		return nil, &fs.PathError{Op: "open", Path: name, Err: fs.ErrNotExist}
	}
	sf := &simFile{name: name, r: &SimReader{Src: append([]byte(nil), b...), Cfg: ReaderConfig{Profile: f.Profile}, Lane: f.Lane, Run: f.Run}}
	if at, ok := f.ReadErr[name]; ok {
		sf.r.Cfg.DeadAt = at
		if at == 0 {
			sf.failFirst = true
		}
	}
	return sf, nil
}

// Names returns the file names in order.
func (f *SimFS) Names() []string {
	var ns []string
	for n := range f.Files {
		ns = append(ns, n)
	}
	sort.Strings(ns)
	return ns
}

type simFile struct {
	name      string
	r         *SimReader
	failFirst bool
}

func (f *simFile) Read(p []byte) (int, error) {
	if f.failFirst {
		if f.r.Run != nil {
			f.r.Run.Fault("read-dead")
		}
		return 0, ErrSimIO
	}
	return f.r.Read(p)
}
func (f *simFile) Close() error               { return nil }
func (f *simFile) Stat() (fs.FileInfo, error) { return simInfo{f.name, int64(len(f.r.Src))}, nil }

type simInfo struct {
	name string
	size int64
}

func (i simInfo) Name() string       { return i.name }
func (i simInfo) Size() int64        { return i.size }
func (i simInfo) Mode() fs.FileMode  { return 0o444 }
func (i simInfo) ModTime() time.Time { return time.Time{} }
func (i simInfo) IsDir() bool        { return false }
func (i simInfo) Sys() interface{}   { return nil }
