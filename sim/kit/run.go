package kit

import (
	"fmt"
	"os"
	"runtime"
	"sort"
	"strings"
	"sync"
	"testing"
	"time"
)

// Violation is one breach of a property found in one run.
type Violation struct {
	Class     string `json:"class"`     // short stable tag, e.g. blocked, leak, answer-mismatch
	Signature string `json:"signature"` // finer, still stable, description used to match known findings
	Message   string `json:"message"`   // human readable, may contain run specific detail
}

// Outcome is everything one run reports.
type Outcome struct {
	Violation    *Violation
	NonTrivial   bool
	Scenario     interface{}    // decoded, human readable
	ScenarioKey  string         // canonical text of (scenario, schedule); hashed for distinct counting
	Faults       map[string]int // fault kinds that actually fired
	Probes       map[string]int // rare-branch probes
	SimSteps     int            // scheduler steps + trampoline polls + device calls
	Inconclusive string         // "", "cap", "not_fired", "unknown"
	Interleaving uint64         // hash of the released (id,point) sequence; 0 when no scheduler was used
	OutOfScope   string         // divergence that is not this property's business (C04), sampled in evidence
	Log          []string
}

// Run is the per-run context handed to a property.
type Run struct {
	T    *testing.T
	Tape *Tape
	Tier string
	Out  Outcome
	mu   sync.Mutex
}

func NewRun(t *testing.T, tape *Tape, tier string) *Run {
	return &Run{T: t, Tape: tape, Tier: tier, Out: Outcome{Faults: map[string]int{}, Probes: map[string]int{}}}
}

// Logf appends an event to the run log. Never draws from the tape, never reads a clock.
func (r *Run) Logf(format string, a ...interface{}) {
	r.mu.Lock()
	r.Out.Log = append(r.Out.Log, fmt.Sprintf(format, a...))
	r.mu.Unlock()
}

// Fail records a violation; only the first one of a run is kept.
func (r *Run) Fail(class, signature, format string, a ...interface{}) {
	r.mu.Lock()
	defer r.mu.Unlock()
	if r.Out.Violation != nil {
		return
	}
	msg := fmt.Sprintf(format, a...)
	r.Out.Violation = &Violation{Class: class, Signature: signature, Message: msg}
	r.Out.Log = append(r.Out.Log, "VIOLATION "+class+" ["+signature+"] "+msg)
}

func (r *Run) Failed() bool {
	r.mu.Lock()
	defer r.mu.Unlock()
	return r.Out.Violation != nil
}

func (r *Run) Fault(kind string) {
	r.mu.Lock()
	r.Out.Faults[kind]++
	r.mu.Unlock()
}

func (r *Run) Probe(name string) {
	r.mu.Lock()
	r.Out.Probes[name]++
	r.mu.Unlock()
}

func (r *Run) Steps(n int) {
	r.mu.Lock()
	r.Out.SimSteps += n
	r.mu.Unlock()
}

// Bug reports a defect of the harness itself (not of the system under test) and ends the process
// with status 3, so that it can never be mistaken for a violation.
func Bug(format string, a ...interface{}) {
	fmt.Fprintf(os.Stderr, "HARNESS-BUG: "+format+"\n", a...)
	os.Exit(3)
}

// LogHash is the hash of the whole event log (determinism self-test compares these).
func (o *Outcome) LogHash() uint64 {
	return HashString(strings.Join(o.Log, "\n"))
}

// Phase is one part of a property's exploration: either seeded sampling or an enumeration of
// systematically constructed tapes. Count is the number of runs at the given tier.
type Phase struct {
	Name       string
	Count      func(tier string) uint64
	Tape       func(base uint64, i uint64) *Tape // nil: NewTape(RunSeed(base, prop+"/"+phase, i))
	Exhaustive bool                              // the phase enumerates a finite space completely
	Space      string                            // description of the enumerated space
}

// Prop is one property check.
type Prop interface {
	ID() string
	Phases() []Phase
	// Exec performs one simulated execution decided by r.Tape and fills r.Out.
	Exec(r *Run)
	// Meta describes the check for evidence files.
	Meta() Meta
}

type Meta struct {
	Level       string   // exploration | fault_enumeration
	Rule        string   // how cases are generated and what makes one non-trivial / distinct
	Assumptions []string // what the check assumes or trusts
	Real        []string // components that ran real code
	Stub        []string // components that ran a stand-in

	// Nondeterministic: the run is a seeded workload under a scheduler the tape does not control (real threads).
	// A violation is then not required to replay from its tape (its oracle is sound on the recorded evidence).
	Nondeterministic bool
}

// ExecOnce runs the property once on a tape and returns the outcome. Panics of the harness
// itself are not caught here (they are harness bugs and must surface as exit 2).
func ExecOnce(t *testing.T, p Prop, tape *Tape, tier string) *Outcome {
	r := NewRun(t, tape, tier)
	p.Exec(r)
	return &r.Out
}

// SameFailure tells whether two outcomes show the same violation (class and signature).
func SameFailure(a, b *Violation) bool {
	if a == nil || b == nil {
		return a == b
	}
	return a.Class == b.Class && a.Signature == b.Signature
}

// Minimise shrinks the lanes while a violation with the same class and signature persists.
// It returns the smallest lanes found, the outcome of their execution and the number of executions.
func Minimise(t *testing.T, p Prop, seed uint64, lanes map[string][]uint32, tier string, want *Violation, budget int) (map[string][]uint32, *Outcome, int) {
	execs := 0
	cur := cloneLanes(lanes)
	var curOut *Outcome
	deadline := time.Now().Add(20 * time.Second) // bounds the cost of shrinking slow runs; the result is replay-verified anyway
	try := func(c map[string][]uint32) bool {
		if execs >= budget || time.Now().After(deadline) {
			execs = budget
			return false
		}
		execs++
		o := ExecOnce(t, p, ReplayTape(seed, c), tier)
		if o.Violation != nil && SameFailure(o.Violation, want) {
			curOut = o
			return true
		}
		return false
	}
	improved := true
	for round := 0; improved && round < 6 && execs < budget; round++ {
		improved = false
		for _, name := range LaneNames(cur) {
			// pass 1: delete blocks
			for size := len(cur[name]); size >= 1; size /= 2 {
				for i := 0; i+size <= len(cur[name]); {
					c := cloneLanes(cur)
					c[name] = append(append([]uint32(nil), cur[name][:i]...), cur[name][i+size:]...)
					if try(c) {
						cur = c
						improved = true
					} else {
						i += size
					}
					if execs >= budget {
						break
					}
				}
				if size == 1 {
					break
				}
			}
			// pass 2: zero, then lower single choices
			for i := 0; i < len(cur[name]) && execs < budget; i++ {
				v := cur[name][i]
				if v == 0 {
					continue
				}
				c := cloneLanes(cur)
				c[name][i] = 0
				if try(c) {
					cur = c
					improved = true
					continue
				}
				for _, nv := range []uint32{v / 2, v - 1} {
					if nv >= v || nv == 0 {
						continue
					}
					c := cloneLanes(cur)
					c[name][i] = nv
					if try(c) {
						cur = c
						improved = true
						break
					}
				}
			}
			// drop trailing zeros (exhausted lanes replay as 0 anyway)
			for len(cur[name]) > 0 && cur[name][len(cur[name])-1] == 0 {
				cur[name] = cur[name][:len(cur[name])-1]
			}
		}
	}
	if curOut == nil {
		execs++
		curOut = ExecOnce(t, p, ReplayTape(seed, cur), tier)
	} else {
		// trailing-zero trimming changed nothing semantically, but re-execute to be sure the stored tape reproduces
		o := ExecOnce(t, p, ReplayTape(seed, cur), tier)
		execs++
		if o.Violation != nil && SameFailure(o.Violation, want) {
			curOut = o
		}
	}
	return cur, curOut, execs
}

func cloneLanes(l map[string][]uint32) map[string][]uint32 {
	c := make(map[string][]uint32, len(l))
	for k, v := range l {
		c[k] = append([]uint32(nil), v...)
	}
	return c
}

// SortedKeys returns the keys of a counter map in order.
func SortedKeys(m map[string]int) []string {
	var ks []string
	for k := range m {
		ks = append(ks, k)
	}
	sort.Strings(ks)
	return ks
}

// SameList compares two string lists element by element (joining would confuse [""] with []).
func SameList(a, b []string) bool {
	if len(a) != len(b) {
		return false
	}
	for i := range a {
		if a[i] != b[i] {
			return false
		}
	}
	return true
}

// EngineGoroutines returns, by goroutine id, the first lines of the stack of every goroutine other than the caller that
// is executing code of the library under test. A synchronous API call must leave the set as it found it: whatever it
// started has ended when it returns.
func EngineGoroutines() map[string]string {
	buf := make([]byte, 1<<20)
	n := runtime.Stack(buf, true)
	out := map[string]string{}
	for i, g := range strings.Split(string(buf[:n]), "\n\n") {
		if i == 0 || !strings.Contains(g, "github.com/ichiban/prolog") {
			continue
		}
		lines := strings.Split(g, "\n")
		id := strings.Fields(lines[0])[1]
		// function names only: arguments, addresses and goroutine ids differ from one execution to the next
		var fns []string
		for _, l := range lines[1:] {
			if strings.HasPrefix(l, "\t") || strings.HasPrefix(l, "created by") {
				continue
			}
			if i := strings.LastIndex(l, "("); i > 0 {
				l = l[:i]
			}
			if len(fns) < 6 {
				fns = append(fns, l)
			}
		}
		out[id] = strings.Join(fns, " < ")
	}
	return out
}
