package kit

import (
	"fmt"
	"sort"
	"strings"
	"sync"
	"testing"
	"testing/synctest"
)

// Schedule policies (a tape choice per run, swarm style).
const (
	PolUniform = iota
	PolConsumerFirst
	PolProducerFirst
	PolSticky
	NumPolicies
)

var PolicyNames = [...]string{"uniform", "consumer-first", "producer-first", "sticky"}

type parkedG struct {
	actor string // "U" or "P<id>"
	point string
	ch    chan struct{}
}

// Sched is a cooperative scheduler over real goroutines. Goroutines call Yield at hook points and
// park on a private channel; the controller (Drive, on the bubble's root goroutine) waits for
// quiescence with synctest.Wait, sorts the parked set and releases exactly one, chosen by the tape.
type Sched struct {
	mu       sync.Mutex
	parked   []*parkedG
	ids      map[interface{}]int
	nextID   int
	alive    map[int]bool // search goroutines that passed P:start and not yet P:exit
	started  int
	userDone bool
	off      bool

	lane   *Lane
	policy int
	last   string
	Cap    int

	StepCount int
	hash      uint64
	run       *Run
	Trace     bool
}

func NewSched(r *Run, policy int) *Sched {
	return &Sched{
		ids:    map[interface{}]int{},
		alive:  map[int]bool{},
		lane:   r.Tape.Lane("sched"),
		policy: policy,
		Cap:    5000,
		hash:   14695981039346656037,
		run:    r,
		Trace:  true,
	}
}

// Yield is installed as prolog.SimYield. who identifies the Solutions the point belongs to.
func (s *Sched) Yield(who interface{}, point string) {
	s.mu.Lock()
	if s.off {
		s.mu.Unlock()
		return
	}
	id, ok := s.ids[who]
	if !ok {
		id = s.nextID
		s.nextID++
		s.ids[who] = id
	}
	actor := "U"
	if point[0] == 'P' {
		actor = fmt.Sprintf("P%d", id)
		switch point {
		case "P:start":
			s.alive[id] = true
			s.started++
		case "P:exit":
			delete(s.alive, id)
		}
	}
	g := &parkedG{actor: actor, point: fmt.Sprintf("%s#%d", point, id), ch: make(chan struct{})}
	s.parked = append(s.parked, g)
	s.mu.Unlock()
	<-g.ch
}

// UserYield is a harness level yield of the user goroutine (between operations that have no hook).
func (s *Sched) UserYield(point string) {
	s.mu.Lock()
	if s.off {
		s.mu.Unlock()
		return
	}
	g := &parkedG{actor: "U", point: point, ch: make(chan struct{})}
	s.parked = append(s.parked, g)
	s.mu.Unlock()
	<-g.ch
}

// IDOf returns the scheduler id of a Solutions (assigned at U:query).
func (s *Sched) IDOf(who interface{}) int {
	s.mu.Lock()
	defer s.mu.Unlock()
	if id, ok := s.ids[who]; ok {
		return id
	}
	return -1
}

// Alive returns the ids of search goroutines that started and did not reach their exit point.
func (s *Sched) Alive() []int {
	s.mu.Lock()
	defer s.mu.Unlock()
	var ids []int
	for id := range s.alive {
		ids = append(ids, id)
	}
	sort.Ints(ids)
	return ids
}

// Go starts the user goroutine inside the bubble. A Go panic in it is recorded as a violation.
func (s *Sched) Go(f func()) {
	go func() {
		defer func() {
			if p := recover(); p != nil {
				s.run.Fail("panic", "go-panic-in-caller", "Go panic on the calling goroutine: %v", p)
			}
			s.mu.Lock()
			s.userDone = true
			s.mu.Unlock()
		}()
		s.UserYield("U:begin")
		f()
	}()
}

// Drive runs the schedule until everything has finished ("done"), the user goroutine is stuck in a
// call with nothing left to release ("blocked"), or the step cap is reached ("cap").
func (s *Sched) Drive() string {
	for {
		synctest.Wait()
		s.mu.Lock()
		if len(s.parked) == 0 {
			done := s.userDone
			s.mu.Unlock()
			if done {
				return "done"
			}
			return "blocked"
		}
		if s.StepCount >= s.Cap {
			s.off = true
			s.mu.Unlock()
			return "cap"
		}
		sort.Slice(s.parked, func(i, j int) bool {
			a, b := s.parked[i], s.parked[j]
			if a.actor != b.actor {
				if (a.actor == "U") != (b.actor == "U") {
					return a.actor == "U"
				}
				if len(a.actor) != len(b.actor) {
					return len(a.actor) < len(b.actor)
				}
				return a.actor < b.actor
			}
			return a.point < b.point
		})
		i := s.pick()
		g := s.parked[i]
		s.parked = append(s.parked[:i], s.parked[i+1:]...)
		s.StepCount++
		s.last = g.actor
		for _, c := range []byte(g.actor + "@" + g.point + ";") {
			s.hash ^= uint64(c)
			s.hash *= 1099511628211
		}
		s.mu.Unlock()
		if s.Trace {
			s.run.Logf("sched %s %s", g.actor, g.point)
		}
		close(g.ch)
	}
}

func (s *Sched) pick() int {
	n := len(s.parked)
	if n == 1 {
		return 0
	}
	switch s.policy {
	case PolConsumerFirst:
		// sorted: U first
		if s.parked[0].actor == "U" && s.lane.Choose(8) != 7 {
			return 0
		}
	case PolProducerFirst:
		if s.parked[0].actor == "U" && s.lane.Choose(8) != 7 {
			return 1 + s.lane.Choose(n-1)
		}
	case PolSticky:
		if s.lane.Choose(8) != 7 {
			for i, g := range s.parked {
				if g.actor == s.last {
					return i
				}
			}
		}
	}
	return s.lane.Choose(n)
}

// Stop makes every later Yield a no-op and releases whatever is parked (used after "cap").
func (s *Sched) Stop() {
	s.mu.Lock()
	s.off = true
	ps := s.parked
	s.parked = nil
	s.mu.Unlock()
	for _, g := range ps {
		close(g.ch)
	}
}

func (s *Sched) Hash() uint64 { return s.hash }

// ParkedDesc describes what is parked (diagnostics).
func (s *Sched) ParkedDesc() string {
	s.mu.Lock()
	defer s.mu.Unlock()
	var ps []string
	for _, g := range s.parked {
		ps = append(ps, g.actor+"@"+g.point)
	}
	return strings.Join(ps, ",")
}

// Settle waits until every other goroutine of the bubble is durably blocked or gone. Call it after set-up
// queries and before installing the scheduler hook, so that no goroutine of the set-up reaches a hook later.
func Settle() { synctest.Wait() }

// Bubble runs f as the root of a synctest bubble. It reports whether the bubble ended with
// goroutines still blocked (synctest's deadlock panic) and any other panic value.
func Bubble(t *testing.T, f func()) (leftover bool, other interface{}) {
	defer func() {
		if p := recover(); p != nil {
			if msg := fmt.Sprint(p); strings.Contains(msg, "deadlock") && strings.Contains(msg, "blocked goroutines remain") {
				leftover = true
				return
			}
			other = p
		}
	}()
	synctest.Test(t, func(*testing.T) { f() })
	return
}
