package kit

import (
	"context"
	"sync"
	"time"
)

// SimCtx is a context whose clock is the number of times the engine polled Done().
// It fires (cancels or expires) exactly at poll FireAt, or when Fire is called.
type SimCtx struct {
	mu          sync.Mutex
	polls       int
	fireAt      int // 0 = never by poll count
	kind        error
	done        chan struct{}
	fired       bool
	pollsAtFire int
	byPoll      bool
	onFire      func()
}

// NewSimCtx: kind is context.Canceled or context.DeadlineExceeded.
func NewSimCtx(fireAt int, kind error) *SimCtx {
	return &SimCtx{fireAt: fireAt, kind: kind, done: make(chan struct{})}
}

func (c *SimCtx) Deadline() (time.Time, bool)   { return time.Time{}, false }
func (c *SimCtx) Value(interface{}) interface{} { return nil }

func (c *SimCtx) Done() <-chan struct{} {
	c.mu.Lock()
	c.polls++
	if !c.fired && c.fireAt > 0 && c.polls >= c.fireAt {
		c.byPoll = true
		c.fireLocked()
	}
	c.mu.Unlock()
	return c.done
}

func (c *SimCtx) Err() error {
	c.mu.Lock()
	defer c.mu.Unlock()
	if c.fired {
		return c.kind
	}
	return nil
}

func (c *SimCtx) fireLocked() {
	if c.fired {
		return
	}
	c.fired = true
	c.pollsAtFire = c.polls
	close(c.done)
	if c.onFire != nil {
		c.onFire()
	}
}

// Fire cancels from outside (an operation of the caller, or a host predicate).
func (c *SimCtx) Fire() {
	c.mu.Lock()
	c.fireLocked()
	c.mu.Unlock()
}

// OnFire registers a callback run (with the lock held, keep it trivial) at the instant of firing.
func (c *SimCtx) OnFire(f func()) { c.onFire = f }

// FiredByPoll tells whether the context fired at its planned poll (i.e. while the engine was running).
func (c *SimCtx) FiredByPoll() bool {
	c.mu.Lock()
	defer c.mu.Unlock()
	return c.byPoll
}

func (c *SimCtx) Fired() bool {
	c.mu.Lock()
	defer c.mu.Unlock()
	return c.fired
}

func (c *SimCtx) Polls() int {
	c.mu.Lock()
	defer c.mu.Unlock()
	return c.polls
}

func (c *SimCtx) PollsAtFire() int {
	c.mu.Lock()
	defer c.mu.Unlock()
	return c.pollsAtFire
}

func (c *SimCtx) Kind() error { return c.kind }

var _ context.Context = (*SimCtx)(nil)
