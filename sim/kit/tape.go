// Package kit is the simulator kernel: choice tape, cooperative scheduler,
// simulated context, simulated devices, canonical printing, run outcome types.
package kit

import (
	"encoding/json"
	"fmt"
	"sort"
	"sync"
)

// splitmix64 is the only PRNG of the simulator.
type splitmix struct{ s uint64 }

func (r *splitmix) next() uint64 {
	r.s += 0x9e3779b97f4a7c15
	z := r.s
	z = (z ^ (z >> 30)) * 0xbf58476d1ce4e5b9
	z = (z ^ (z >> 27)) * 0x94d049bb133111eb
	return z ^ (z >> 31)
}

// Mix hashes two words into one (used to derive run seeds and lane seeds).
func Mix(a, b uint64) uint64 {
	r := splitmix{s: a ^ (b * 0x9e3779b97f4a7c15)}
	r.next()
	return r.next()
}

// HashString is FNV-1a 64.
func HashString(s string) uint64 {
	h := uint64(14695981039346656037)
	for i := 0; i < len(s); i++ {
		h ^= uint64(s[i])
		h *= 1099511628211
	}
	return h
}

// RunSeed derives the seed of run i of property p from the base seed.
func RunSeed(base uint64, prop string, i uint64) uint64 {
	return Mix(Mix(base, HashString(prop)), i)
}

// Lane is one independent recorded sequence of choices.
type Lane struct {
	name   string
	rec    []uint32
	pos    int
	rng    splitmix
	replay bool
}

// Tape holds every choice of one run, in named lanes. A run is a pure function of (code, tape).
type Tape struct {
	mu     sync.Mutex
	Seed   uint64
	lanes  map[string]*Lane
	replay bool
	// in replay mode, lanes not present in the file are empty (all choices 0).

	// Fixed is a scenario supplied from outside (enumeration phases) instead of being drawn from
	// the gen lane; it is JSON so that it can be stored in a replay file unchanged.
	Fixed json.RawMessage
}

// Preset makes one lane replay the given values while the other lanes keep generating.
func (t *Tape) Preset(name string, vals []uint32) {
	t.mu.Lock()
	defer t.mu.Unlock()
	t.lanes[name] = &Lane{name: name, rec: append([]uint32(nil), vals...), replay: true}
}

// NewTape makes a generating tape: every lane draws from its own PRNG stream derived from seed.
func NewTape(seed uint64) *Tape {
	return &Tape{Seed: seed, lanes: map[string]*Lane{}}
}

// ReplayTape makes a replaying tape from recorded lanes.
func ReplayTape(seed uint64, lanes map[string][]uint32) *Tape {
	t := &Tape{Seed: seed, lanes: map[string]*Lane{}, replay: true}
	for k, v := range lanes {
		t.lanes[k] = &Lane{name: k, rec: append([]uint32(nil), v...), replay: true}
	}
	return t
}

// Lane returns the named lane, creating it on first use.
func (t *Tape) Lane(name string) *Lane {
	t.mu.Lock()
	defer t.mu.Unlock()
	l, ok := t.lanes[name]
	if !ok {
		l = &Lane{name: name, replay: t.replay, rng: splitmix{s: Mix(t.Seed, HashString(name))}}
		t.lanes[name] = l
	}
	return l
}

// Choose returns a value in [0,n). n<=1 consumes nothing and returns 0.
// Generators are written so that lower values are simpler (0 = no fault, shortest, first).
func (l *Lane) Choose(n int) int {
	if n <= 1 {
		return 0
	}
	if l.replay {
		if l.pos >= len(l.rec) {
			l.pos++
			return 0
		}
		v := int(l.rec[l.pos]) % n
		l.pos++
		return v
	}
	v := int(l.rng.next() % uint64(n))
	l.rec = append(l.rec, uint32(v))
	l.pos++
	return v
}

// Bool is Choose(2)==1.
func (l *Lane) Bool() bool { return l.Choose(2) == 1 }

// Chance returns true with probability num/den (value 0 = false = simpler).
func (l *Lane) Chance(num, den int) bool {
	return l.Choose(den) >= den-num
}

// Weighted picks index i with probability w[i]/sum(w). Put the simplest alternative first.
func (l *Lane) Weighted(w ...int) int {
	sum := 0
	for _, x := range w {
		sum += x
	}
	v := l.Choose(sum)
	for i, x := range w {
		if v < x {
			return i
		}
		v -= x
	}
	return len(w) - 1
}

// Range returns a value in [lo,hi].
func (l *Lane) Range(lo, hi int) int {
	if hi <= lo {
		return lo
	}
	return lo + l.Choose(hi-lo+1)
}

// Used is the number of choices consumed so far.
func (l *Lane) Used() int { return l.pos }

// Snapshot returns the recorded lanes (only the consumed prefix of each, in replay mode).
func (t *Tape) Snapshot() map[string][]uint32 {
	t.mu.Lock()
	defer t.mu.Unlock()
	out := map[string][]uint32{}
	for k, l := range t.lanes {
		n := len(l.rec)
		if l.replay && l.pos < n {
			n = l.pos
		}
		if n == 0 {
			continue
		}
		out[k] = append([]uint32(nil), l.rec[:n]...)
	}
	return out
}

// LaneNames returns lane names in a fixed order: gen first, then dev:*, then the rest, sched last.
func LaneNames(lanes map[string][]uint32) []string {
	var names []string
	for k := range lanes {
		names = append(names, k)
	}
	rank := func(s string) int {
		switch {
		case s == "gen":
			return 0
		case len(s) > 4 && s[:4] == "dev:":
			return 1
		case s == "sched":
			return 3
		}
		return 2
	}
	sort.Slice(names, func(i, j int) bool {
		if rank(names[i]) != rank(names[j]) {
			return rank(names[i]) < rank(names[j])
		}
		return names[i] < names[j]
	})
	return names
}

// ReplayFile is what is written under /verif/replays.
type ReplayFile struct {
	Property  string              `json:"property"`
	Class     string              `json:"class"`
	Message   string              `json:"message"`
	Signature string              `json:"signature"`
	VerifSeed uint64              `json:"verif_seed"`
	RunIndex  uint64              `json:"run_index"`
	RunSeed   uint64              `json:"run_seed"`
	Tier      string              `json:"tier"`
	Mode      string              `json:"mode,omitempty"`
	Lanes     map[string][]uint32 `json:"tape"`
	Fixed     json.RawMessage     `json:"fixed_scenario,omitempty"`
	Phase     string              `json:"phase,omitempty"`
	Scenario  interface{}         `json:"scenario,omitempty"`
	LogTail   []string            `json:"log_tail,omitempty"`
	RepoHead  string              `json:"repo_head,omitempty"`
	Minimised bool                `json:"minimised"`
	Execs     int                 `json:"minimiser_executions,omitempty"`
}

func (r *ReplayFile) JSON() []byte {
	b, err := json.MarshalIndent(r, "", " ")
	if err != nil {
		panic(fmt.Sprint("replay marshal: ", err))
	}
	return b
}
