package sim

// One binary, three roles (SIM_ROLE):
//   master  - plans the phases of a property, forks workers of itself, merges, verifies replays in
//             fresh processes, classifies against known_findings.json, writes evidence, sets exit code
//   worker  - executes a stride of run indexes of every phase, minimises what it finds
//   replay  - executes exactly one replay file and prints what it shows
// Workers must run inside a Test function because testing/synctest needs a *testing.T.

import (
	"context"
	"encoding/json"
	"fmt"
	"os"
	"os/exec"
	"path/filepath"
	"regexp"
	"runtime"
	"sort"
	"strconv"
	"strings"
	"testing"
	"time"

	"verif/sim/kit"
	"verif/sim/props"
)

func envOr(k, d string) string {
	if v := os.Getenv(k); v != "" {
		return v
	}
	return d
}

func envU(k string, d uint64) uint64 {
	if v := os.Getenv(k); v != "" {
		n, err := strconv.ParseUint(v, 10, 64)
		if err != nil {
			// negative or non-numeric seeds are hashed
			return kit.HashString(v)
		}
		return n
	}
	return d
}

func TestMain(m *testing.M) {
	switch os.Getenv("SIM_ROLE") {
	case "master":
		os.Exit(master())
	default:
		os.Exit(m.Run())
	}
}

// ---------------------------------------------------------------- worker

type violationReport struct {
	Phase     string          `json:"phase"`
	Index     uint64          `json:"index"`
	Replay    *kit.ReplayFile `json:"replay"`
	Count     int             `json:"count"`
	FreshOK   bool            `json:"fresh_ok"` // the worker has seen this replay file reproduce in a process of its own
	tries     int
	path      string
	freshOnly bool
}

// freshReproduces replays rf in a new process (as the master will) and says whether the same class and signature show.
// State that the code under test keeps from one execution to the next inside a process (a package-level cache) can make
// a run violate only because of the runs before it, or only without them; such an instance is no use as a replay file.
func freshReproduces(rf *kit.ReplayFile, n int) bool {
	path := filepath.Join(os.Getenv("VERIF_DIR"), "bin", fmt.Sprintf("fresh-%d-%d.json", os.Getpid(), n))
	if err := os.WriteFile(path, rf.JSON(), 0o644); err != nil {
		return false
	}
	defer os.Remove(path)
	ctx, cancel := context.WithTimeout(context.Background(), 15*time.Second)
	defer cancel()
	cmd := exec.CommandContext(ctx, os.Args[0], "-test.run", "^TestSim$", "-test.timeout", "0", "-test.cpu", "1")
	cmd.Env = append(os.Environ(), "SIM_ROLE=replay", "SIM_FILE="+path)
	ob, _ := cmd.CombinedOutput()
	return strings.Contains(string(ob), fmt.Sprintf("REPLAY-RESULT class=%s signature=%s\n", rf.Class, rf.Signature))
}

type workerResult struct {
	Worker        int                         `json:"worker"`
	Evaluations   uint64                      `json:"evaluations"`
	PerPhase      map[string]uint64           `json:"per_phase"`
	NonTrivial    []uint64                    `json:"nontrivial_hashes"`
	NonTrivialN   uint64                      `json:"nontrivial_runs"`
	Interleavings []uint64                    `json:"interleavings"`
	Faults        map[string]int              `json:"faults"`
	Probes        map[string]int              `json:"probes"`
	SimSteps      uint64                      `json:"sim_steps"`
	Inconclusive  map[string]int              `json:"inconclusive"`
	OutOfScope    int                         `json:"out_of_scope"`
	OutOfScopeS   []string                    `json:"out_of_scope_samples"`
	Samples       []interface{}               `json:"samples"`
	Violations    map[string]*violationReport `json:"violations"` // by class|signature
	LogHashes     map[string]uint64           `json:"log_hashes,omitempty"`
	Nondet        []string                    `json:"nondeterminism"`
	Truncated     bool                        `json:"truncated"` // stopped early on the time budget
	WallS         float64                     `json:"wall_s"`
}

func phaseTape(p kit.Prop, ph kit.Phase, base, i uint64) *kit.Tape {
	if ph.Tape != nil {
		return ph.Tape(base, i)
	}
	return kit.NewTape(kit.RunSeed(base, p.ID()+"/"+ph.Name, i))
}

func TestSim(t *testing.T) {
	role := os.Getenv("SIM_ROLE")
	switch role {
	case "worker":
		worker(t)
	case "replay":
		replay(t)
	case "":
		t.Skip("SIM_ROLE not set; this binary is driven by /verif/check.sh")
	default:
		t.Fatalf("unknown SIM_ROLE %q", role)
	}
}

func worker(t *testing.T) {
	start := time.Now()
	p := props.Get(os.Getenv("SIM_PROP"))
	if p == nil {
		t.Fatalf("unknown property %q", os.Getenv("SIM_PROP"))
	}
	tier := envOr("SIM_TIER", "quick")
	base := envU("SIM_SEED", 1)
	w := int(envU("SIM_WORKER", 0))
	nw := envU("SIM_WORKERS", 1)
	scale := envU("SIM_SCALE_PERMILLE", 1000)
	budget := time.Duration(envU("SIM_BUDGET_S", 0)) * time.Second
	wantHashes := os.Getenv("SIM_LOGHASH") != ""
	watchdog := time.Duration(envU("SIM_WATCHDOG_S", 10)) * time.Second
	journal, _ := os.Create(os.Getenv("SIM_OUT") + ".journal")
	res := &workerResult{Worker: w, PerPhase: map[string]uint64{}, Faults: map[string]int{}, Probes: map[string]int{},
		Inconclusive: map[string]int{}, Violations: map[string]*violationReport{}}
	if wantHashes {
		res.LogHashes = map[string]uint64{}
	}
	nt := map[uint64]struct{}{}
	il := map[uint64]struct{}{}
	minimised := 0
	freshN := 0
	finish := func() {
		for h := range nt {
			res.NonTrivial = append(res.NonTrivial, h)
		}
		for h := range il {
			res.Interleavings = append(res.Interleavings, h)
		}
		res.WallS = time.Since(start).Seconds()
		b, err := json.Marshal(res)
		if err != nil {
			kit.Bug("worker result: %v", err)
		}
		if err := os.WriteFile(os.Getenv("SIM_OUT"), b, 0o644); err != nil {
			kit.Bug("worker result: %v", err)
		}
		if journal != nil {
			journal.Close()
			os.Remove(os.Getenv("SIM_OUT") + ".journal")
		}
	}
	onlyPhase, onlyIndex := os.Getenv("SIM_ONLY_PHASE"), envU("SIM_ONLY_INDEX", 0)
	for _, ph := range p.Phases() {
		n := ph.Count(tier)
		if !ph.Exhaustive {
			n = n * scale / 1000
		}
		first, step := uint64(w), nw
		if onlyPhase != "" {
			if ph.Name != onlyPhase {
				continue
			}
			first, n, step = onlyIndex, onlyIndex+1, 1
		}
		for i := first; i < n; i += step {
			if budget > 0 && time.Since(start) > budget {
				res.Truncated = true
				break
			}
			if journal != nil {
				fmt.Fprintf(journal, "%s %d\n", ph.Name, i)
			}
			tape := phaseTape(p, ph, base, i)
			wd := time.AfterFunc(watchdog, func() {
				// The run is stuck where the simulator has no control (a goroutine blocked on a lock, so that quiescence
				// is never reached, or a loop that reaches no hook). Everything else in this process is blocked, so its
				// state can be read. Report it as a violation with the tape recorded so far, save what this worker has, exit.
				msg := fmt.Sprintf("run %s/%d did not finish within %v of wall time (a simulated run takes milliseconds): a goroutine is stuck outside the simulator's control (blocked on a lock, so quiescence is never reached) or loops without reaching any hook", ph.Name, i, watchdog)
				fmt.Fprintln(os.Stderr, "WATCHDOG:", msg)
				rf := &kit.ReplayFile{Property: p.ID(), Class: "stuck", Signature: "stuck:no-quiescence", Message: msg,
					VerifSeed: base, RunIndex: i, RunSeed: tape.Seed, Tier: tier, Phase: ph.Name, Lanes: tape.Snapshot(), Fixed: tape.Fixed}
				if _, ok := res.Violations["stuck|stuck:no-quiescence"]; !ok {
					res.Violations["stuck|stuck:no-quiescence"] = &violationReport{Phase: ph.Name, Index: i, Replay: rf, Count: 1}
				}
				res.Truncated = true
				finish()
				os.Exit(0)
			})
			out := kit.ExecOnce(t, p, tape, tier)
			wd.Stop()
			if os.Getenv("SIM_DUMPLOG") == "all" {
				fmt.Println("=== run", ph.Name, i)
				fmt.Println(strings.Join(out.Log, "\n"))
			}
			res.Evaluations++
			res.PerPhase[ph.Name]++
			res.SimSteps += uint64(out.SimSteps)
			for k, v := range out.Faults {
				res.Faults[k] += v
			}
			for k, v := range out.Probes {
				res.Probes[k] += v
			}
			if out.Inconclusive != "" {
				res.Inconclusive[out.Inconclusive]++
			}
			if out.OutOfScope != "" {
				res.OutOfScope++
				if len(res.OutOfScopeS) < 3 {
					res.OutOfScopeS = append(res.OutOfScopeS, out.OutOfScope)
				}
			}
			if out.NonTrivial {
				res.NonTrivialN++
				nt[kit.HashString(out.ScenarioKey)] = struct{}{}
			}
			if out.Interleaving != 0 {
				il[out.Interleaving] = struct{}{}
			}
			if len(res.Samples) < 2 && out.NonTrivial && out.Scenario != nil {
				res.Samples = append(res.Samples, map[string]interface{}{"phase": ph.Name, "run_index": i, "scenario": out.Scenario, "log_tail": tail(out.Log, 12)})
			}
			if wantHashes {
				res.LogHashes[fmt.Sprintf("%s/%d", ph.Name, i)] = out.LogHash()
			}
			if out.Violation == nil {
				continue
			}
			key := out.Violation.Class + "|" + out.Violation.Signature
			prev := res.Violations[key]
			if prev != nil {
				prev.Count++
				if prev.FreshOK || prev.tries >= 5 || p.Meta().Nondeterministic {
					continue
				}
				// the instance kept so far does not reproduce in a process of its own: try this one
			}
			keep := func(c *violationReport) {
				freshN++
				c.FreshOK = freshReproduces(c.Replay, freshN)
				if !c.FreshOK && c.Replay.Minimised {
					// minimised against the state this process has accumulated: the run as it was found, then
					orig := *c.Replay
					orig.Lanes, orig.Minimised, orig.Execs = tape.Snapshot(), false, 0
					orig.Scenario, orig.LogTail, orig.Message = out.Scenario, tail(out.Log, 40), out.Violation.Message
					freshN++
					if freshReproduces(&orig, freshN) {
						c.Replay, c.FreshOK = &orig, true
					}
				}
				if prev == nil {
					c.tries = 1
					res.Violations[key] = c
					return
				}
				prev.tries++
				if c.FreshOK {
					c.Count, c.tries = prev.Count, prev.tries
					res.Violations[key] = c
				}
			}
			lanes := tape.Snapshot()
			if p.Meta().Nondeterministic {
				// real threads: the evidence recorded by this execution stands on its own (sound oracles); no minimisation
				res.Violations[key] = &violationReport{Phase: ph.Name, Index: i, Count: 1, Replay: &kit.ReplayFile{Property: p.ID(), Class: out.Violation.Class,
					Signature: out.Violation.Signature, Message: out.Violation.Message, VerifSeed: base, RunIndex: i, RunSeed: tape.Seed, Tier: tier, Phase: ph.Name,
					Lanes: lanes, Fixed: tape.Fixed, Scenario: out.Scenario, LogTail: tail(out.Log, 40)}}
				continue
			}
			// 1. reproducible from its own tape?
			again := kit.ExecOnce(t, p, replayOf(tape, lanes), tier)
			if os.Getenv("SIM_DUMPLOG") != "" && (os.Getenv("SIM_DUMPLOG") != "diff" || again.LogHash() != out.LogHash()) {
				fmt.Println("=== first\n" + strings.Join(out.Log, "\n") + "\n=== replay\n" + strings.Join(again.Log, "\n"))
			}
			if !kit.SameFailure(again.Violation, out.Violation) || again.LogHash() != out.LogHash() {
				// Not reproducible inside this process. Either the code under test has a wake-up the simulator does not
				// control, or it keeps state across executions in one process (a package-level variable), in which case the
				// tape still reproduces the violation in a FRESH process. Hand it to the master unminimised: it replays every
				// violation in a fresh process anyway and reports only what reproduces there.
				keep(&violationReport{Phase: ph.Name, Index: i, Count: 1, freshOnly: true, Replay: &kit.ReplayFile{Property: p.ID(), Class: out.Violation.Class,
					Signature: out.Violation.Signature, Message: out.Violation.Message + "\n  (did not show again when re-executed in the same process: reproduces only from a fresh process, i.e. the code under test carries state from one execution to the next)",
					VerifSeed: base, RunIndex: i, RunSeed: tape.Seed, Tier: tier, Phase: ph.Name, Lanes: lanes, Fixed: tape.Fixed, Scenario: out.Scenario, LogTail: tail(out.Log, 40)}})
				res.Nondet = append(res.Nondet, fmt.Sprintf("%s/%d: %s [%s]", ph.Name, i, out.Violation.Class, out.Violation.Signature))
				continue
			}
			rf := &kit.ReplayFile{Property: p.ID(), Class: out.Violation.Class, Signature: out.Violation.Signature, Message: out.Violation.Message,
				VerifSeed: base, RunIndex: i, RunSeed: tape.Seed, Tier: tier, Phase: ph.Name, Lanes: lanes, Fixed: tape.Fixed,
				Scenario: out.Scenario, LogTail: tail(out.Log, 40)}
			// 2. minimise
			if minimised < 6 {
				minimised++
				ml, mo, execs := minimiseWithFixed(t, p, tape, lanes, tier, out.Violation, 1500)
				if mo != nil && mo.Violation != nil && kit.SameFailure(mo.Violation, out.Violation) {
					rf.Lanes, rf.Scenario, rf.LogTail, rf.Message, rf.Minimised, rf.Execs = ml, mo.Scenario, tail(mo.Log, 40), mo.Violation.Message, true, execs
				}
			}
			keep(&violationReport{Phase: ph.Name, Index: i, Replay: rf, Count: 1})
		}
	}
	finish()
}

func replayOf(orig *kit.Tape, lanes map[string][]uint32) *kit.Tape {
	t := kit.ReplayTape(orig.Seed, lanes)
	t.Fixed = orig.Fixed
	return t
}

type fixedProp struct {
	kit.Prop
	fixed json.RawMessage
}

func (f fixedProp) Exec(r *kit.Run) {
	r.Tape.Fixed = f.fixed
	f.Prop.Exec(r)
}

func minimiseWithFixed(t *testing.T, p kit.Prop, tape *kit.Tape, lanes map[string][]uint32, tier string, want *kit.Violation, budget int) (map[string][]uint32, *kit.Outcome, int) {
	var pp kit.Prop = p
	if tape.Fixed != nil {
		pp = fixedProp{p, tape.Fixed}
	}
	return kit.Minimise(t, pp, tape.Seed, lanes, tier, want, budget)
}

func tail(s []string, n int) []string {
	if len(s) > n {
		s = s[len(s)-n:]
	}
	return append([]string(nil), s...)
}

// ---------------------------------------------------------------- replay

func replay(t *testing.T) {
	b, err := os.ReadFile(os.Getenv("SIM_FILE"))
	if err != nil {
		fmt.Println("REPLAY-ERROR", err)
		t.Fatal(err)
	}
	var rf kit.ReplayFile
	if err := json.Unmarshal(b, &rf); err != nil {
		fmt.Println("REPLAY-ERROR", err)
		t.Fatal(err)
	}
	p := props.Get(rf.Property)
	if p == nil {
		t.Fatalf("unknown property %q", rf.Property)
	}
	tape := kit.ReplayTape(rf.RunSeed, rf.Lanes)
	if os.Getenv("SIM_REPLAY_GENERATE") != "" {
		tape = kit.NewTape(rf.RunSeed) // no recorded choices: draw them from the seed
	}
	tape.Fixed = rf.Fixed
	if rf.Class == "process-death" {
		// no tape could be recorded: regenerate the run from (seed, phase, index)
		for _, ph := range p.Phases() {
			if ph.Name == rf.Phase {
				tape = phaseTape(p, ph, rf.VerifSeed, rf.RunIndex)
			}
		}
	}
	wd := time.AfterFunc(time.Duration(envU("SIM_WATCHDOG_S", 10))*time.Second, func() {
		fmt.Printf("REPLAY-RESULT class=stuck signature=stuck:no-quiescence\n")
		fmt.Printf("REPLAY-MESSAGE the run did not finish: a goroutine is stuck outside the simulator's control (blocked on a lock) or loops without reaching any hook\n")
		os.Exit(0)
	})
	out := kit.ExecOnce(t, p, tape, rf.Tier)
	wd.Stop()
	if os.Getenv("SIM_VERBOSE") != "" {
		for _, l := range out.Log {
			fmt.Println("  |", l)
		}
	}
	if out.Violation == nil {
		fmt.Printf("REPLAY-RESULT none\n")
		return
	}
	fmt.Printf("REPLAY-RESULT class=%s signature=%s\n", out.Violation.Class, out.Violation.Signature)
	fmt.Printf("REPLAY-MESSAGE %s\n", out.Violation.Message)
}

// ---------------------------------------------------------------- master

type knownFinding struct {
	Property  string `json:"property"`
	Key       string `json:"key"`
	Status    string `json:"status"` // open | fixed
	Commit    string `json:"commit,omitempty"`
	What      string `json:"what"`
	Class     string `json:"class"`
	Signature string `json:"signature"` // regular expression over the violation signature
}

func master() int {
	start := time.Now()
	id := os.Getenv("SIM_PROP")
	p := props.Get(id)
	if p == nil {
		fmt.Fprintf(os.Stderr, "unknown property %q (have %v)\n", id, props.IDs())
		return 2
	}
	reportID := envOr("SIM_REPORT_AS", id)
	tier := envOr("SIM_TIER", "quick")
	base := envU("SIM_SEED", 1)
	nw := int(envU("SIM_WORKERS", uint64(runtime.NumCPU())))
	verif := envOr("VERIF_DIR", "/verif")
	tmp, err := os.MkdirTemp(filepath.Join(verif, "bin"), "run-"+id+"-")
	if err != nil {
		fmt.Fprintln(os.Stderr, "mkdir:", err)
		return 2
	}
	defer os.RemoveAll(tmp)
	self, _ := os.Executable()

	fmt.Printf("check %s tier=%s VERIF_SEED=%d workers=%d\n", id, tier, base, nw)
	type proc struct {
		cmd *exec.Cmd
		out string
		log string
	}
	var procs []proc
	for w := 0; w < nw; w++ {
		out := filepath.Join(tmp, fmt.Sprintf("w%d.json", w))
		logf := filepath.Join(tmp, fmt.Sprintf("w%d.log", w))
		cpu := "1"
		if p.Meta().Nondeterministic {
			cpu = envOr("SIM_GOMAXPROCS", "8") // real threads wanted
		}
		cmd := exec.Command(self, "-test.run", "^TestSim$", "-test.timeout", "0", "-test.cpu", cpu)
		cmd.Env = append(os.Environ(), "SIM_ROLE=worker", "SIM_WORKER="+strconv.Itoa(w), "SIM_WORKERS="+strconv.Itoa(nw), "SIM_OUT="+out, "GOMAXPROCS="+envOr("SIM_GOMAXPROCS", "2"))
		lf, _ := os.Create(logf)
		cmd.Stdout, cmd.Stderr = lf, lf
		if err := cmd.Start(); err != nil {
			fmt.Fprintln(os.Stderr, "start worker:", err)
			return 2
		}
		procs = append(procs, proc{cmd, out, logf})
	}
	var results []*workerResult
	infra := 0
	var dead, deadLogs []string
	// A worker whose journal has not moved for 60 s is stuck in a way its own watchdog could not end (observed: a
	// runaway loop in the code under test that starves timers and signals under GOMAXPROCS=1). Kill it; the run it
	// was executing is then handled like any other worker death.
	stopMon := make(chan struct{})
	go func() {
		for {
			select {
			case <-stopMon:
				return
			case <-time.After(5 * time.Second):
			}
			for _, pr := range procs {
				if st, err := os.Stat(pr.out + ".journal"); err == nil && time.Since(st.ModTime()) > 60*time.Second {
					if _, err := os.Stat(pr.out); err != nil && pr.cmd.Process != nil {
						pr.cmd.Process.Kill()
					}
				}
			}
		}
	}()
	defer close(stopMon)
	for w, pr := range procs {
		werr := pr.cmd.Wait()
		b, rerr := os.ReadFile(pr.out)
		if rerr != nil {
			j, _ := os.ReadFile(pr.out + ".journal")
			lines := strings.Split(strings.TrimSpace(string(j)), "\n")
			lg, _ := os.ReadFile(pr.log)
			fmt.Fprintf(os.Stderr, "worker %d died (%v) during run %q; tail of its output:\n%s\n", w, werr, lines[len(lines)-1], lastBytes(lg, 3000))
			dead = append(dead, lines[len(lines)-1])
			deadLogs = append(deadLogs, string(lg))
			infra++
			continue
		}
		var r workerResult
		if err := json.Unmarshal(b, &r); err != nil {
			fmt.Fprintln(os.Stderr, "bad worker result:", err)
			infra++
			continue
		}
		results = append(results, &r)
	}

	// merge
	merged := &workerResult{PerPhase: map[string]uint64{}, Faults: map[string]int{}, Probes: map[string]int{}, Inconclusive: map[string]int{}, Violations: map[string]*violationReport{}}
	nt := map[uint64]struct{}{}
	il := map[uint64]struct{}{}
	hashes := map[string]uint64{}
	candidates := map[string][]*violationReport{} // per class|signature: each worker's first (minimised) instance
	for _, r := range results {
		merged.Evaluations += r.Evaluations
		merged.SimSteps += r.SimSteps
		merged.NonTrivialN += r.NonTrivialN
		merged.OutOfScope += r.OutOfScope
		merged.Truncated = merged.Truncated || r.Truncated
		for k, v := range r.PerPhase {
			merged.PerPhase[k] += v
		}
		for k, v := range r.Faults {
			merged.Faults[k] += v
		}
		for k, v := range r.Probes {
			merged.Probes[k] += v
		}
		for k, v := range r.Inconclusive {
			merged.Inconclusive[k] += v
		}
		for _, h := range r.NonTrivial {
			nt[h] = struct{}{}
		}
		for _, h := range r.Interleavings {
			il[h] = struct{}{}
		}
		for k, v := range r.LogHashes {
			hashes[k] = v
		}
		if len(merged.Samples) < 3 {
			merged.Samples = append(merged.Samples, r.Samples...)
		}
		if len(merged.OutOfScopeS) < 3 {
			merged.OutOfScopeS = append(merged.OutOfScopeS, r.OutOfScopeS...)
		}
		merged.Nondet = append(merged.Nondet, r.Nondet...)
		for k, v := range r.Violations {
			candidates[k] = append(candidates[k], v)
		}
	}
	if len(merged.Samples) > 3 {
		merged.Samples = merged.Samples[:3]
	}
	if f := os.Getenv("SIM_LOGHASH"); f != "" {
		var ks []string
		for k := range hashes {
			ks = append(ks, k)
		}
		sort.Strings(ks)
		var sb strings.Builder
		for _, k := range ks {
			fmt.Fprintf(&sb, "%s %016x\n", k, hashes[k])
		}
		os.WriteFile(f, []byte(sb.String()), 0o644)
	}

	// known findings
	var known []knownFinding
	if b, err := os.ReadFile(filepath.Join(verif, "known_findings.json")); err == nil {
		var kf struct {
			Findings []knownFinding `json:"findings"`
		}
		if err := json.Unmarshal(b, &kf); err != nil {
			fmt.Fprintln(os.Stderr, "known_findings.json:", err)
			return 2
		}
		known = kf.Findings
	}
	matchKnown := func(v *kit.ReplayFile) *knownFinding {
		for i := range known {
			k := &known[i]
			if (k.Property != id && k.Property != reportID) || k.Status != "open" || (k.Class != "" && k.Class != v.Class) {
				continue
			}
			if ok, _ := regexp.MatchString("^(?:"+k.Signature+")$", v.Signature); ok {
				return k
			}
		}
		return nil
	}

	// violations: write replay files, verify each in a fresh process
	head := repoHead()
	var keys []string
	for k, c := range candidates {
		keys = append(keys, k)
		sort.Slice(c, func(i, j int) bool {
			if c[i].FreshOK != c[j].FreshOK {
				return c[i].FreshOK
			}
			if c[i].Phase != c[j].Phase {
				return c[i].Phase < c[j].Phase
			}
			return c[i].Index < c[j].Index
		})
	}
	sort.Strings(keys)
	unlisted, dropped, listed := 0, 0, map[string]int{}
	os.MkdirAll(filepath.Join(verif, "replays"), 0o755)
	if old, _ := filepath.Glob(filepath.Join(verif, "replays", id+"-*.json")); os.Getenv("SIM_NO_EVIDENCE") == "" {
		for _, f := range old {
			os.Remove(f) // replay files of earlier runs of this check
		}
	}
	var lines []string
	for _, k := range keys {
		// verify in a fresh process; try up to three instances of this (class, signature) until one reproduces
		var v *violationReport
		total := 0
		for _, c := range candidates[k] {
			total += c.Count
		}
		for n, c := range candidates[k] {
			if n >= 3 {
				break
			}
			c.Replay.RepoHead = head
			name := fmt.Sprintf("%s-%s-%016x.json", id, sanitize(c.Replay.Class), kit.HashString(k)^c.Replay.RunSeed)
			path := filepath.Join(verif, "replays", name)
			if err := os.WriteFile(path, c.Replay.JSON(), 0o644); err != nil {
				fmt.Fprintln(os.Stderr, "write replay:", err)
				return 2
			}
			want := fmt.Sprintf("REPLAY-RESULT class=%s signature=%s", c.Replay.Class, c.Replay.Signature)
			var ob []byte
			attempts := 1
			if p.Meta().Nondeterministic {
				attempts = 10
			}
			for a := 0; a < attempts && !strings.Contains(string(ob), want+"\n"); a++ {
				cpu := "1"
				if p.Meta().Nondeterministic {
					cpu = envOr("SIM_GOMAXPROCS", "8")
				}
				ctx, cancel := context.WithTimeout(context.Background(), 60*time.Second)
				cmd := exec.CommandContext(ctx, self, "-test.run", "^TestSim$", "-test.timeout", "0", "-test.cpu", cpu)
				cmd.Env = append(os.Environ(), "SIM_ROLE=replay", "SIM_FILE="+path, "GOMAXPROCS="+envOr("SIM_GOMAXPROCS", "2"))
				ob, _ = cmd.CombinedOutput()
				if ctx.Err() != nil && c.Replay.Class == "stuck" {
					ob = append(ob, []byte("\n"+want+"\n")...) // it had to be killed: stuck indeed
				}
				cancel()
			}
			if p.Meta().Nondeterministic && !strings.Contains(string(ob), want+"\n") {
				// sound oracle over recorded evidence: reported even though 10 re-executions did not show it again
				fmt.Fprintf(os.Stderr, "note: %s: 10 re-executions of the workload did not show the finding again; the recorded evidence is in the replay file\n", path)
				ob = []byte(want + "\n")
			}
			if strings.Contains(string(ob), want+"\n") {
				v = c
				v.Count = total
				v.path = path
				break
			}
			fmt.Fprintf(os.Stderr, "warning: replay of %s in a fresh process did not reproduce (%s); not reported\n", path, want)
			os.Remove(path)
		}
		if v == nil {
			dropped++
			continue
		}
		path := v.path
		if kf := matchKnown(v.Replay); kf != nil {
			listed[kf.Key] += v.Count
			lines = append(lines, fmt.Sprintf("KNOWN-FINDING: property=%s %s [key=%s, seen %d times, e.g. replay=%s]", reportID, kf.What, kf.Key, v.Count, path))
			continue
		}
		unlisted++
		lines = append(lines, fmt.Sprintf("VIOLATION property=%s replay=%s", reportID, path))
		lines = append(lines, fmt.Sprintf("  class=%s signature=%s seen=%d phase=%s run=%d: %s", v.Replay.Class, v.Replay.Signature, v.Count, v.Phase, v.Index, v.Replay.Message))
	}
	if p.Meta().Nondeterministic && len(deadLogs) > 0 {
		// real threads: a race report or a fatal runtime error is a finding by itself (the race detector does not report
		// without a real race); it is not expected to show again on the next execution
		for i, lg := range deadLogs {
			class := ""
			switch {
			case strings.Contains(lg, "WARNING: DATA RACE"):
				class = "race"
			case strings.Contains(lg, "fatal error:"):
				class = "fatal-runtime-error"
			}
			if class == "" || i >= 2 {
				continue
			}
			f := strings.Fields(dead[i])
			idx, _ := strconv.ParseUint(f[1], 10, 64)
			at := strings.Index(lg, "WARNING: DATA RACE")
			if at < 0 {
				at = strings.Index(lg, "fatal error:")
			}
			excerpt := lg[at:]
			if len(excerpt) > 6000 {
				excerpt = excerpt[:6000]
			}
			rf := &kit.ReplayFile{Property: id, Class: class, Signature: class, Message: firstLine([]byte(excerpt)), VerifSeed: base, RunIndex: idx, Tier: tier, Phase: f[0], RepoHead: head, LogTail: strings.Split(excerpt, "\n")}
			path := filepath.Join(verif, "replays", fmt.Sprintf("%s-%s-%s-%s.json", id, class, f[0], f[1]))
			os.WriteFile(path, rf.JSON(), 0o644)
			unlisted++
			infra = 0
			lines = append(lines, fmt.Sprintf("VIOLATION property=%s replay=%s", reportID, path), fmt.Sprintf("  class=%s phase=%s run=%s: %s", class, f[0], f[1], c14FirstFrames(excerpt)))
		}
		dead = nil
	}
	if len(dead) > 2 {
		dead = dead[:2]
	}
	for _, d := range dead {
		// a worker that dies is re-run alone on that index: a reproducible death is a violation of the property being run
		if v := rerunDead(self, id, tier, base, d, verif, head); v != "" {
			unlisted++
			infra = 0 // the other dead workers are explained by the same reproducible death
			lines = append(lines, v)
		}
	}
	if len(merged.Nondet) > 0 {
		// A violation that does not replay from its own tape is never reported. If other violations did replay (each was
		// re-executed in a fresh process above) they stand on their own; otherwise nothing can be claimed either way.
		fmt.Fprintf(os.Stderr, "warning: %d violating run(s) did not show the same violation when re-executed in the same process (uncontrolled wake-up or state kept across executions in the code under test); such a violation is reported only if its replay file reproduces it in a fresh process:\n  %s\n", len(merged.Nondet), strings.Join(firstN(merged.Nondet, 5), "\n  "))
		if unlisted == 0 {
			infra++
		}
	}
	if dropped > 0 && unlisted == 0 {
		infra++
	}

	wall := time.Since(start).Seconds()
	meta := p.Meta()
	exhaustive := false
	var spaces []string
	for _, ph := range p.Phases() {
		if ph.Exhaustive && ph.Count(tier) > 0 && merged.PerPhase[ph.Name] == ph.Count(tier) {
			spaces = append(spaces, fmt.Sprintf("%s: %s (%d runs, complete)", ph.Name, ph.Space, ph.Count(tier)))
		}
	}
	_ = exhaustive
	level := meta.Level
	if tier == "quick" && os.Getenv("SIM_QUICK_LEVEL") != "" {
		level = os.Getenv("SIM_QUICK_LEVEL")
	}
	ev := map[string]interface{}{
		"property_id": id,
		"tier":        tier,
		"seed":        int64(base & 0x7fffffffffffffff),
		"level":       level,
		"coverage": map[string]interface{}{
			"evaluations":            merged.Evaluations,
			"distinct_nontrivial":    len(nt),
			"nontrivial_runs":        merged.NonTrivialN,
			"rule":                   meta.Rule,
			"samples":                merged.Samples,
			"per_phase":              merged.PerPhase,
			"enumerated_spaces":      spaces,
			"exhaustive":             false, // the sampled phases are never exhaustive; completely enumerated sub-spaces are listed in enumerated_spaces (thorough tier)
			"tier_note":              map[string]string{"quick": "seeded sampling only", "thorough": "seeded sampling plus the enumeration phases listed in enumerated_spaces"}[tier],
			"runs_per_hour":          int64(float64(merged.Evaluations) / wall * 3600),
			"sim_steps":              merged.SimSteps,
			"faults_fired":           merged.Faults,
			"distinct_interleavings": len(il),
			"probes":                 merged.Probes,
			"inconclusive":           merged.Inconclusive,
			"out_of_scope":           map[string]interface{}{"count": merged.OutOfScope, "samples": merged.OutOfScopeS},
			"components":             map[string]interface{}{"real": meta.Real, "stub": meta.Stub},
			"known_findings_matched": listed,
			"truncated_by_budget":    merged.Truncated,
			"workers":                nw,
			"go_version":             runtime.Version(),
			"repo_head":              head,
		},
		"assumptions": meta.Assumptions,
		"wall_s":      wall,
		"violations":  unlisted,
	}
	if (infra == 0 || unlisted > 0) && os.Getenv("SIM_NO_EVIDENCE") == "" {
		os.MkdirAll(filepath.Join(verif, "evidence"), 0o755)
		b, _ := json.MarshalIndent(ev, "", " ")
		if err := os.WriteFile(filepath.Join(verif, "evidence", id+".json"), append(b, '\n'), 0o644); err != nil {
			fmt.Fprintln(os.Stderr, "write evidence:", err)
			return 2
		}
	}
	for _, k := range kit.SortedKeys(merged.Probes) {
		_ = k
	}
	fmt.Printf("%s %s: %d runs (%d non-trivial, %d distinct), %d distinct interleavings, %d simulated steps, faults fired %v, inconclusive %v, %.1fs\n",
		id, tier, merged.Evaluations, merged.NonTrivialN, len(nt), len(il), merged.SimSteps, merged.Faults, merged.Inconclusive, wall)
	if merged.OutOfScope > 0 {
		fmt.Printf("warning: %d out-of-scope divergences (not this property's business), e.g. %v\n", merged.OutOfScope, merged.OutOfScopeS)
	}
	for _, l := range lines {
		fmt.Println(l)
	}
	switch {
	case unlisted > 0:
		return 1 // every VIOLATION line above was reproduced from its replay file in a fresh process
	case infra > 0:
		fmt.Println("RESULT: harness trouble, nothing is claimed (exit 2)")
		return 2
	}
	fmt.Println("RESULT: property held on everything explored")
	return 0
}

func rerunDead(self, id, tier string, base uint64, where, verif, head string) string {
	f := strings.Fields(where)
	if len(f) != 2 {
		return ""
	}
	deaths := 0
	var lastOut []byte
	for k := 0; k < 2; k++ {
		out := filepath.Join(verif, "bin", fmt.Sprintf("rerun-%s-%d.json", id, os.Getpid()))
		ctx, cancel := context.WithTimeout(context.Background(), 40*time.Second)
		cmd := exec.CommandContext(ctx, self, "-test.run", "^TestSim$", "-test.timeout", "0", "-test.cpu", "1")
		cmd.Env = append(os.Environ(), "SIM_ROLE=worker", "SIM_ONLY_PHASE="+f[0], "SIM_ONLY_INDEX="+f[1], "SIM_OUT="+out, "GOMAXPROCS=2")
		ob, _ := cmd.CombinedOutput()
		if ctx.Err() != nil {
			ob = append(ob, []byte("\nWATCHDOG: the process running this one simulated execution had to be killed after 40 s (runaway loop that starves its own watchdog)\n")...)
		}
		cancel()
		if strings.Contains(string(ob), "HARNESS-BUG") {
			return ""
		}
		if _, err := os.Stat(out); err != nil {
			deaths++
			lastOut = ob
		}
		os.Remove(out)
		os.Remove(out + ".journal")
	}
	if deaths < 2 {
		return ""
	}
	idx, _ := strconv.ParseUint(f[1], 10, 64)
	rf := &kit.ReplayFile{Property: id, Class: "process-death", Signature: "process-death", Message: "the process running this simulated execution died: " + firstLine(lastOut),
		VerifSeed: base, RunIndex: idx, Tier: tier, Phase: f[0], RepoHead: head, LogTail: strings.Split(lastBytes(lastOut, 1500), "\n")}
	path := filepath.Join(verif, "replays", fmt.Sprintf("%s-process-death-%s-%s.json", id, f[0], f[1]))
	os.WriteFile(path, rf.JSON(), 0o644)
	return fmt.Sprintf("VIOLATION property=%s replay=%s\n  class=process-death phase=%s run=%s: %s", envOr("SIM_REPORT_AS", id), path, f[0], f[1], firstLine(lastOut))
}

// c14FirstFrames summarises a race report: the two accesses.
func c14FirstFrames(report string) string {
	var out []string
	for _, l := range strings.Split(report, "\n") {
		t := strings.TrimSpace(l)
		if strings.HasPrefix(t, "Write at") || strings.HasPrefix(t, "Read at") || strings.HasPrefix(t, "Previous write at") || strings.HasPrefix(t, "Previous read at") || strings.HasPrefix(t, "github.com/ichiban/prolog") {
			out = append(out, t)
		}
		if len(out) >= 6 {
			break
		}
	}
	return strings.Join(out, " | ")
}

func firstN(s []string, n int) []string {
	if len(s) > n {
		return s[:n]
	}
	return s
}

func firstLine(b []byte) string {
	for _, l := range strings.Split(string(b), "\n") {
		if strings.HasPrefix(l, "fatal error") || strings.HasPrefix(l, "panic") || strings.Contains(l, "stack overflow") || strings.HasPrefix(l, "WATCHDOG") {
			return l
		}
	}
	return strings.SplitN(string(b), "\n", 2)[0]
}

func lastBytes(b []byte, n int) string {
	if len(b) > n {
		b = b[len(b)-n:]
	}
	return string(b)
}

func sanitize(s string) string {
	return regexp.MustCompile(`[^a-zA-Z0-9_-]+`).ReplaceAllString(s, "_")
}

func repoHead() string {
	out, err := exec.Command("git", "-C", envOr("VERIF_REPO", "/repo"), "rev-parse", "--short", "HEAD").Output()
	if err != nil {
		return "unknown"
	}
	h := strings.TrimSpace(string(out))
	if st, _ := exec.Command("git", "-C", envOr("VERIF_REPO", "/repo"), "status", "--porcelain").Output(); len(strings.TrimSpace(string(st))) > 0 {
		h += "+dirty"
	}
	return h
}
