package props

import (
	"context"
	"encoding/json"
	"errors"
	"fmt"
	"strings"

	"verif/sim/kit"

	"github.com/ichiban/prolog"
	"github.com/ichiban/prolog/engine"
)

// ---------------------------------------------------------------------------
// C04 — throw/1 unwinds to the innermost still-executing catch/3, undoing bindings
// ---------------------------------------------------------------------------

type c04 struct{}

func init() { Register(c04{}) }

func (c04) ID() string { return "C04" }

const c04MaxEvents = 300

func (c04) Meta() kit.Meta {
	return kit.Meta{
		Level: "fault_enumeration",
		Rule: "a case = a generated control skeleton (depth <= 5, <= 16 nodes over conjunction, disjunction, if-then-else, \\+, call/1, once/1, findall/3, catch/3 with catchers that do or do not unify, throw/1 of balls sharing variables with the goal, n-way choice points, unifications, up to 3 user predicates with up to 3 clauses and an optional clause-level cut) plus a fault plan indexed by the dynamic visit number of the fault sites: a host predicate pt/1 succeeds / fails / throws a ball / returns a Go error / panics, put_char/1 meets a failing output device, functor/3 is refused memory, real built-ins raise type / instantiation / existence errors. The error is the fault; its dynamic instant relative to all enclosing catch/3 frames is what the plan decides (the same pt(3) can succeed on its first visit and throw after its catch/3 has exited and been re-entered by backtracking). " +
			"distinct = distinct (skeleton, plan). non-trivial = an error was raised while at least one catch/3 goal was executing. " +
			"thorough enumerates, for 2000 skeletons, every plan with exactly one non-succeeding outcome (40 visit positions x 5 outcome kinds) besides 1.5M sampled cases.",
		Assumptions: []string{
			"reference interpreter of the grammar (left-to-right depth-first search, cut local to once / if-then-else / \\+ / call / findall / catch / clause) with explicit catch frames: a frame handles an error iff the error did not come out of the frame's own continuation",
			"a divergence between the implementation's and the model's event traces counts for C04 only if an error had been raised or a catch/3 entered before the first differing event; otherwise it is reported as out of scope (counted, no effect on the exit code)",
			"errors that are not Prolog terms (Go error, panic, device error) are assumed to unify only with a variable catcher or error(_, _); message texts and the context argument of error/2 are never compared",
		},
		Real: []string{"engine.Catch, engine.Throw, Promise.Force / promiseStack.recover, ensurePromise (panic conversion)", "engine.Call, Negate, FindAll, bootstrap.pl control constructs", "real failing built-ins (is/2, atom_length/2, arg/3, unknown procedure)", "put_char/1 on a failing writer, functor/3 through makeSlice"},
		Stub: []string{"host predicate pt/1 (fault site)", "output device (failing writer)", "free-memory probe (engine.SimSetMemFree)"},
	}
}

func (c04) Phases() []kit.Phase {
	return []kit.Phase{
		{Name: "sampled", Count: func(tier string) uint64 {
			if tier == "thorough" {
				return 1500000
			}
			return 60000
		}},
		{Name: "enum-single-fault", Exhaustive: true,
			Space: "2000 generated skeletons x (visit position 0..39) x 5 non-succeeding outcome kinds, all other visits succeed",
			Count: func(tier string) uint64 {
				if tier == "thorough" {
					return 2000 * 40 * 5
				}
				return 0
			},
			Tape: func(base, i uint64) *kit.Tape {
				t := kit.NewTape(kit.RunSeed(base, "C04/skeleton", i/200))
				t.Fixed, _ = json.Marshal(map[string]int{"visit": int(i/5) % 40, "kind": int(i % 5)})
				return t
			}},
	}
}

const c04Repeat = 1000000 // an "alt" with this many alternatives is written repeat/0

type c04Scenario struct {
	ViaExec bool          `json:"as_directive,omitempty"` // the goal runs as a directive of a text given to Exec: first answer only, the error comes back from Exec
	Via     string        `json:"via,omitempty"`          // directive | init (an initialization goal, another one queued behind it) | include (directive of an included file) | consult-query (directive of a file consulted by a query)
	Query   string        `json:"query"`
	Program string        `json:"program"`
	Plan    []int         `json:"plan"`
	Goal    *c04Goal      `json:"-"`
	Preds   [][]c04Clause `json:"-"`
}

// ---- generation ----

type c04Gen struct {
	g      *kit.Lane
	budget int
	nextI  int
	inBody bool // inside a user clause body: variables are A and L
	minU   int  // user predicates callable from here: index >= minU
	nPreds int
}

func (x *c04Gen) v() string {
	if x.inBody {
		return []string{"A", "L"}[x.g.Choose(2)]
	}
	return fmt.Sprintf("V%d", 1+x.g.Choose(4))
}

func (x *c04Gen) catcher() string {
	g := x.g
	switch g.Weighted(4, 4, 2, 2, 2, 3) {
	case 0:
		return "_"
	case 1:
		return []string{"b1", "b2", "b3"}[g.Choose(3)]
	case 2:
		return "b(" + x.v() + ")"
	case 3:
		return "b(a)"
	case 4:
		return "error(_, _)"
	}
	return []string{"error(type_error(_, _), _)", "error(instantiation_error, _)", "error(existence_error(_, _), _)", "error(resource_error(_), _)", "error(evaluation_error(_), _)", "error(b1, ctx1)", "error(_, ctx1)", "error(type_error(atom, f(b)), _)", "error(type_error(atom, f(a)), _)"}[g.Choose(9)]
}

func (x *c04Gen) ball() string {
	g := x.g
	switch g.Weighted(5, 2, 2, 1, 1) {
	case 4:
		// an error term whose context is left open: the ball is a copy of it, the context stays a variable
		return []string{"error(b1, _)", "error(b2, _)"}[g.Choose(2)]
	case 0:
		return []string{"b1", "b2", "b3"}[g.Choose(3)]
	case 1:
		return "b(" + x.v() + ")"
	case 2:
		return "b(a)"
	}
	return x.v()
}

func (x *c04Gen) leaf() *c04Goal {
	g := x.g
	x.nextI++
	switch g.Weighted(8, 3, 4, 3, 3, 2, 1, 1, 1, 1, 1) {
	case 10:
		// a recursive predicate: D activations of one catch/3 call site are open at once when the ball b(T) is thrown
		d := 1 + g.Choose(4)
		return &c04Goal{Op: "rec", N: d, V: g.Choose(d + 2)}
	case 0:
		return &c04Goal{Op: "pt", I: x.nextI}
	case 1:
		rhs := []string{"a", "b", "c", "f(a)", x.v()}[g.Choose(5)]
		return &c04Goal{Op: "bind", T: x.v() + " = " + rhs}
	case 2:
		if x.inBody {
			return &c04Goal{Op: "pt", I: x.nextI}
		}
		return &c04Goal{Op: "obs", I: x.nextI}
	case 3:
		if g.Choose(6) == 0 {
			return &c04Goal{Op: "alt", N: c04Repeat} // repeat/0
		}
		return &c04Goal{Op: "alt", N: 2 + g.Choose(2)}
	case 4:
		return &c04Goal{Op: "throw", T: x.ball()}
	case 5:
		if g.Choose(4) == 0 {
			// a built-in error whose culprit holds a variable that is bound on the way: the error term is a copy taken when
			// it is raised
			return &c04Goal{Op: "berr", Kind: "culprit", T: x.v()}
		}
		return &c04Goal{Op: "berr", Kind: []string{"type", "inst", "arg", "exist", "eval", "evalcmp"}[g.Choose(6)]}
	case 6:
		return &c04Goal{Op: "out"}
	case 7:
		return &c04Goal{Op: "alloc"}
	case 8:
		return &c04Goal{Op: "true"}
	}
	return &c04Goal{Op: "fail"}
}

// scoped generates the whole argument of a construct that is opaque to cut: now and then a flat conjunction with cuts
// in it, two or more of them more often than not.
func (x *c04Gen) scoped(depth int) *c04Goal {
	g := x.g
	if depth <= 0 || x.budget <= 2 || g.Choose(4) != 0 {
		return x.goal(depth)
	}
	s := &c04Goal{Op: "seq"}
	n := 1 + g.Choose(3)
	for i := 0; i < n; i++ {
		s.Args = append(s.Args, x.goal(depth-1))
	}
	s.Cuts = 1 + g.Choose(1<<uint(n+1)-1)
	if g.Choose(2) == 0 {
		s.Cuts |= 1 << uint(g.Choose(n+1)) // one more, possibly
	}
	return s
}

func (x *c04Gen) goal(depth int) *c04Goal {
	g := x.g
	x.budget--
	if depth <= 0 || x.budget <= 0 {
		return x.leaf()
	}
	switch g.Weighted(6, 8, 3, 2, 1, 1, 2, 1, 7, 2) {
	case 0:
		return x.leaf()
	case 1:
		return &c04Goal{Op: "and", Args: []*c04Goal{x.goal(depth - 1), x.goal(depth - 1)}}
	case 2:
		return &c04Goal{Op: "or", Args: []*c04Goal{x.goal(depth - 1), x.goal(depth - 1)}}
	case 3:
		return &c04Goal{Op: "ite", Args: []*c04Goal{x.scoped(depth - 1), x.goal(depth - 1), x.goal(depth - 1)}}
	case 4:
		return &c04Goal{Op: "not", Args: []*c04Goal{x.scoped(depth - 1)}}
	case 5:
		return &c04Goal{Op: "call", Args: []*c04Goal{x.scoped(depth - 1)}}
	case 6:
		if g.Choose(3) == 0 {
			return &c04Goal{Op: "nth", N: 1 + g.Choose(3), Args: []*c04Goal{x.scoped(depth - 1)}}
		}
		return &c04Goal{Op: "once", Args: []*c04Goal{x.scoped(depth - 1)}}
	case 7:
		if x.inBody {
			return x.leaf()
		}
		if g.Choose(3) == 0 {
			// a collection abandoned by an error after it has produced answers, inside a collection that goes on: what the
			// abandoned one had gathered is gone with it
			x.nextI++
			inner := &c04Goal{Op: "findall", V: 1 + g.Choose(4), Args: []*c04Goal{{Op: "and", Args: []*c04Goal{{Op: "alt", N: 2 + g.Choose(2)}, {Op: "pt", I: x.nextI}}}}}
			mid := &c04Goal{Op: "catch", T: x.catcher(), Args: []*c04Goal{inner, x.leaf()}}
			return &c04Goal{Op: "findall", V: 1 + g.Choose(4), Args: []*c04Goal{{Op: "and", Args: []*c04Goal{{Op: "alt", N: 1 + g.Choose(3)}, mid}}}}
		}
		return &c04Goal{Op: "findall", V: 1 + g.Choose(4), Args: []*c04Goal{x.scoped(depth - 1)}}
	case 8:
		switch g.Weighted(8, 2, 2) {
		case 1:
			// a cut literally in the goal of catch/3 is local to it: catch((A, !, B), Catcher, Recovery)
			return &c04Goal{Op: "catch", N: 1, T: x.catcher(), Args: []*c04Goal{x.goal(depth - 1), x.goal(depth - 1), x.goal(depth - 1)}}
		case 2:
			// a goal that call/1 itself rejects: unbound, a number, a conjunction with a number in it. The error is raised
			// inside the catch/3 and is this frame's to handle
			kind := []string{"var", "int", "conj-int"}[g.Choose(3)]
			v := x.v()
			if x.inBody {
				v = "L"
			}
			x.nextI++
			return &c04Goal{Op: "catch", N: 2, Kind: kind, V: int(v[len(v)-1] - '0'), I: x.nextI, T: x.catcher(), Args: []*c04Goal{{Op: "true"}, x.goal(depth - 1)}, U: map[bool]int{true: 1, false: 0}[x.inBody]}
		}
		return &c04Goal{Op: "catch", T: x.catcher(), Args: []*c04Goal{x.scoped(depth - 1), x.scoped(depth - 1)}}
	}
	if x.minU < x.nPreds {
		u := x.minU + g.Choose(x.nPreds-x.minU)
		arg := x.v()
		if g.Choose(3) == 0 {
			arg = []string{"a", "b"}[g.Choose(2)]
		}
		return &c04Goal{Op: "user", U: u, T: arg}
	}
	return x.leaf()
}

func c04GenScenario(r *kit.Run) *c04Scenario {
	g := r.Tape.Lane("gen")
	sc := &c04Scenario{}
	x := &c04Gen{g: g, nPreds: g.Choose(4)}
	sc.Preds = make([][]c04Clause, x.nPreds)
	// user predicates from the last to the first so that a body only calls predicates with a larger index
	for u := x.nPreds - 1; u >= 0; u-- {
		n := 1 + g.Choose(3)
		for c := 0; c < n; c++ {
			bx := &c04Gen{g: g, budget: 5, nextI: 100*(u+1) + 10*c, inBody: true, minU: u + 1, nPreds: x.nPreds}
			cl := c04Clause{}
			if g.Choose(4) == 0 {
				cl.Cut = 1
				cl.Body = &c04Goal{Op: "and", Args: []*c04Goal{bx.goal(2), bx.goal(2)}}
			} else {
				cl.Body = bx.scoped(3)
			}
			sc.Preds[u] = append(sc.Preds[u], cl)
		}
	}
	x.budget = 6 + g.Choose(11)
	sc.Goal = x.goal(2 + g.Choose(4))
	// fault plan: about 85% succeed
	n := 40
	for i := 0; i < n; i++ {
		v := 0
		if g.Choose(100) >= 85 {
			v = 5 + g.Choose(3) + 8*g.Choose(6)
		}
		sc.Plan = append(sc.Plan, v)
	}
	if r.Tape.Fixed != nil {
		var f struct{ Visit, Kind int }
		if err := json.Unmarshal(r.Tape.Fixed, &f); err != nil {
			kit.Bug("c04 fixed: %v", err)
		}
		for i := range sc.Plan {
			sc.Plan[i] = 0
		}
		// kinds: fail, throw b1, throw b2, Go error, panic (for out / alloc sites anything >= 5 is their fault)
		sc.Plan[f.Visit%n] = []int{5, 6, 6 + 8, 7, 7 + 8}[f.Kind%5]
	}
	// trailing zeros carry no information
	for len(sc.Plan) > 0 && sc.Plan[len(sc.Plan)-1] == 0 {
		sc.Plan = sc.Plan[:len(sc.Plan)-1]
	}
	var sb strings.Builder
	for u, cls := range sc.Preds {
		for _, cl := range cls {
			if cl.Cut > 0 {
				fmt.Fprintf(&sb, "u%d(A) :- %s, !, %s.\n", u, c04Text(cl.Body.Args[0]), c04Text(cl.Body.Args[1]))
			} else {
				fmt.Fprintf(&sb, "u%d(A) :- %s.\n", u, c04Text(cl.Body))
			}
		}
	}
	sb.WriteString("rec(0, T) :- pt(90), throw(b(T)).\nrec(N, T) :- N > 0, N1 is N - 1, catch(rec(N1, T), b(N), pt(91)), pt(92).\n")
	sc.Program = sb.String()
	sc.Query = c04Text(sc.Goal) + ", anchor(V1, V2, V3, V4)"
	sc.Via = []string{"directive", "init", "include", "consult-query", "", "", "", "", "", ""}[g.Choose(10)]
	sc.ViaExec = sc.Via != ""
	return sc
}

func c04Text(g *c04Goal) string {
	switch g.Op {
	case "true", "fail":
		return g.Op
	case "pt":
		return fmt.Sprintf("pt(%d)", g.I)
	case "obs":
		return fmt.Sprintf("obs(%d, V1, V2, V3, V4)", g.I)
	case "bind":
		return g.T
	case "alt":
		if g.N >= c04Repeat {
			return "(repeat, rtick)" // rtick/0: a goal of the host that counts the rounds (it is not an event)
		}
		return fmt.Sprintf("between(1, %d, _)", g.N)
	case "and":
		return "(" + c04Text(g.Args[0]) + ", " + c04Text(g.Args[1]) + ")"
	case "seq":
		var parts []string
		if g.Cuts&1 != 0 {
			parts = append(parts, "!")
		}
		for i, a := range g.Args {
			parts = append(parts, c04Text(a))
			if g.Cuts&(1<<uint(i+1)) != 0 {
				parts = append(parts, "!")
			}
		}
		return "(" + strings.Join(parts, ", ") + ")"
	case "or":
		return "(" + c04Text(g.Args[0]) + " ; " + c04Text(g.Args[1]) + ")"
	case "ite":
		return "(" + c04Text(g.Args[0]) + " -> " + c04Text(g.Args[1]) + " ; " + c04Text(g.Args[2]) + ")"
	case "not":
		return "\\+ " + c04Text(g.Args[0])
	case "call":
		return "call(" + c04Text(g.Args[0]) + ")"
	case "once":
		return "once(" + c04Text(g.Args[0]) + ")"
	case "nth":
		return fmt.Sprintf("call_nth(%s, %d)", c04Text(g.Args[0]), g.N)
	case "findall":
		return fmt.Sprintf("findall(x, %s, V%d)", c04Text(g.Args[0]), g.V)
	case "catch":
		switch g.N {
		case 1:
			return "catch((" + c04Text(g.Args[0]) + ", !, " + c04Text(g.Args[2]) + "), " + g.T + ", " + c04Text(g.Args[1]) + ")"
		case 2:
			goal := map[string]string{"var": c04BadVar(g), "int": "1", "conj-int": fmt.Sprintf("(pt(%d), 1)", g.I)}[g.Kind]
			return "catch(" + goal + ", " + g.T + ", " + c04Text(g.Args[1]) + ")"
		}
		return "catch(" + c04Text(g.Args[0]) + ", " + g.T + ", " + c04Text(g.Args[1]) + ")"
	case "throw":
		return "throw(" + g.T + ")"
	case "berr":
		switch g.Kind {
		case "culprit":
			return fmt.Sprintf("(%s = a, atom_length(f(%s), _))", g.T, g.T)
		case "eval":
			return "_ is 1 / 0"
		case "evalcmp":
			return "1 < 1 / 0"
		case "type":
			return "_ is foo + 1"
		case "inst":
			return "atom_length(_, _)"
		case "arg":
			return "arg(x, f(a), _)"
		}
		return "undefined_pred_c04"
	case "out":
		return "put_char(x)"
	case "alloc":
		return "(alloc_pt, functor(_, f, 12))"
	case "user":
		return fmt.Sprintf("u%d(%s)", g.U, g.T)
	case "rec":
		return fmt.Sprintf("rec(%d, %d)", g.N, g.V)
	}
	kit.Bug("c04 text: %q", g.Op)
	return ""
}

type planWriter struct {
	visit func(site string) string
	run   *kit.Run
}

func (w planWriter) Write(p []byte) (int, error) {
	if w.visit("out") != "ok" {
		return 0, kit.ErrSimIO
	}
	return len(p), nil
}

func (c04) Exec(r *kit.Run) {
	sc := c04GenScenario(r)
	r.Out.Scenario = sc
	b, _ := json.Marshal(sc)
	r.Out.ScenarioKey = string(b)

	// ---- model ----
	m := &c04Model{plan: sc.Plan, preds: sc.Preds, maxEv: c04MaxEvents}
	for i := 0; i < 4; i++ {
		m.vars = append(m.vars, m.fresh())
	}
	maxAnswers := 64
	if sc.ViaExec {
		maxAnswers = 1
	}
	wantOutcome := m.run(sc.Goal, maxAnswers)
	if sc.ViaExec {
		switch {
		case wantOutcome == "cap" && m.answers == 1 && len(m.events) <= c04MaxEvents:
			wantOutcome = "first-answer"
		case wantOutcome == "exhausted":
			wantOutcome = "failed-directive"
		}
	}

	// ---- implementation ----
	var events []string
	visits := 0
	visit := func(site string) string {
		v := 0
		if visits < len(sc.Plan) {
			v = sc.Plan[visits]
		}
		visits++
		out := c04Outcome(site, v)
		if out != "ok" {
			r.Fault(site + "-" + strings.SplitN(out, "-", 2)[0])
		}
		return out
	}
	logEv := func(s string) {
		if len(events) <= c04MaxEvents+5 {
			events = append(events, s)
		}
	}
	// alloc_pt/0 decides the outcome of the allocation that follows it; the free-memory probe refuses exactly that one
	refuse := false
	restore := engine.SimSetMemFree(func() int64 {
		if refuse {
			refuse = false
			return 0
		}
		return 1 << 40
	})
	defer restore()
	interp := prolog.New(strings.NewReader(""), planWriter{visit: func(site string) string {
		out := visit(site)
		logEv("out " + out)
		return out
	}})
	interp.Register1(engine.NewAtom("pt"), func(_ *engine.VM, i engine.Term, k engine.Cont, env *engine.Env) *engine.Promise {
		out := visit("pt")
		logEv(fmt.Sprintf("pt %s %s", kit.CanonTerm(i, env, kit.NewRenamer()), out))
		switch {
		case out == "ok":
			return k(env)
		case out == "fail":
			return engine.Bool(false)
		case strings.HasPrefix(out, "throw-"):
			return engine.Error(engine.NewException(engine.NewAtom(out[6:]), env))
		case out == "goerr":
			return engine.Error(errors.New("simulated Go error in a predicate"))
		}
		// whatever the value: a panic in a predicate is an error of the goal
		switch visits % 5 {
		case 4:
			panic(nil) // (with this module's language version recover() returns nil for it)
		case 0:
			panic("simulated panic in a predicate")
		case 1:
			panic(42)
		case 2:
			panic(errors.New("simulated panic with an error value"))
		}
		panic(struct{ Code int }{7})
	})
	// the skeletons are finite except for repeat/0: a query that needs more than 200000 polls of its context, or more than
	// 5000 rounds of a repeat/0, does not terminate (the second bound does not depend on how often the engine polls)
	ctx := kit.NewSimCtx(200000, context.Canceled)
	rounds := 0
	interp.Register0(engine.NewAtom("rtick"), func(_ *engine.VM, k engine.Cont, env *engine.Env) *engine.Promise {
		if rounds++; rounds > 5000 {
			ctx.Fire()
		}
		return k(env)
	})
	interp.Register0(engine.NewAtom("alloc_pt"), func(_ *engine.VM, k engine.Cont, env *engine.Env) *engine.Promise {
		out := visit("alloc")
		logEv("alloc " + out)
		refuse = out != "ok"
		return k(env)
	})
	state := func(vs []engine.Term, env *engine.Env) string {
		rn := kit.NewRenamer()
		var xs []string
		for _, v := range vs {
			xs = append(xs, kit.CanonTerm(v, env, rn))
		}
		return "[" + strings.Join(xs, ",") + "]"
	}
	interp.Register5(engine.NewAtom("obs"), func(_ *engine.VM, i, a, b, c, d engine.Term, k engine.Cont, env *engine.Env) *engine.Promise {
		logEv(fmt.Sprintf("obs %s %s", kit.CanonTerm(i, env, kit.NewRenamer()), state([]engine.Term{a, b, c, d}, env)))
		return k(env)
	})
	interp.Register4(engine.NewAtom("anchor"), func(_ *engine.VM, a, b, c, d engine.Term, k engine.Cont, env *engine.Env) *engine.Promise {
		logEv("answer " + state([]engine.Term{a, b, c, d}, env))
		return k(env)
	})
	if err := interp.Exec(sc.Program); err != nil {
		kit.Bug("c04 program does not load: %v\n%s", err, sc.Program)
	}
	// the skeletons are finite: a query that needs more than 200000 trampoline steps does not terminate
	gotOutcome := ""
	if sc.ViaExec {
		fsys := kit.NewSimFS(nil, nil)
		fsys.Files["inc.pl"] = []byte(":- " + sc.Query + ".\n")
		interp.FS = fsys
		var err error
		switch sc.Via {
		case "directive":
			err = interp.ExecContext(ctx, ":- "+sc.Query+".\n")
		case "init":
			err = interp.ExecContext(ctx, ":- initialization(("+sc.Query+")).\n:- initialization(true).\n")
		case "include":
			err = interp.ExecContext(ctx, "c04_before(1).\n:- include(inc).\nc04_after(1).\n")
		case "consult-query":
			err = interp.QuerySolutionContext(ctx, "consult(inc).").Err()
		default:
			kit.Bug("c04 via %q", sc.Via)
		}
		switch {
		case err == nil:
			gotOutcome = "first-answer"
		case strings.HasPrefix(err.Error(), "failed directive"), strings.HasPrefix(err.Error(), "failed initialization goal"):
			gotOutcome = "failed-directive"
		default:
			if _, ok := err.(engine.Exception); ok {
				gotOutcome = kit.CanonErr(err)
			} else {
				gotOutcome = "sys"
			}
		}
	} else {
		sols, err := interp.QueryContext(ctx, sc.Query+".")
		if err != nil {
			kit.Bug("c04 query does not parse: %v\n%s", err, sc.Query)
		}
		answers := 0
		for sols.Next() {
			answers++
			if answers >= 64 || len(events) > c04MaxEvents {
				gotOutcome = "cap"
				break
			}
		}
		if gotOutcome == "" {
			switch err := sols.Err(); {
			case err == nil:
				gotOutcome = "exhausted"
			default:
				if _, ok := err.(engine.Exception); ok {
					gotOutcome = kit.CanonErr(err)
				} else {
					gotOutcome = "sys"
				}
			}
		}
		sols.Close()
	}
	r.Steps(visits + len(events))
	if ctx.Fired() && wantOutcome == "cap" {
		r.Out.Inconclusive = "cap" // with repeat/0 in the grammar a query may really not terminate: the model says so too
		return
	}
	if ctx.Fired() {
		r.Fail("runaway", "query-does-not-terminate", "the query did not end within 200000 trampoline steps (the reference model ends with %s after %d events)\n  query: %s\n  program: %s\n  plan: %v\n  first events: %v", wantOutcome, len(m.events), sc.Query, strings.ReplaceAll(sc.Program, "\n", " "), sc.Plan, tail(events, 12))
		return
	}
	r.Logf("query: %s\nprogram:\n%splan: %v\nimplementation: %v -> %s\nmodel:          %v -> %s", sc.Query, sc.Program, sc.Plan, events, gotOutcome, m.events, wantOutcome)

	if wantOutcome == "cap" || gotOutcome == "cap" || len(m.events) > c04MaxEvents {
		r.Out.Inconclusive = "cap"
		return
	}
	r.Out.NonTrivial = m.faultUnderCatch
	if m.raised > 0 {
		r.Probe("error-raised")
	}
	if m.caught > 0 {
		r.Probe("error-caught")
	}

	// first differing event
	d := -1
	for i := 0; i < len(events) || i < len(m.events); i++ {
		if i >= len(events) || i >= len(m.events) || events[i] != m.events[i] {
			d = i
			break
		}
	}
	kind := func(evs []string, i int) string {
		if i >= len(evs) {
			return "end"
		}
		return strings.Fields(evs[i])[0]
	}
	at := func(evs []string, i int) string {
		if i >= len(evs) {
			return "<no further event>"
		}
		return evs[i]
	}
	if d >= 0 {
		inScope := false
		if len(m.scope) > 0 {
			j := d
			if j >= len(m.scope) {
				j = len(m.scope) - 1
				inScope = m.inScope
			}
			inScope = inScope || m.scope[j]
		} else {
			inScope = m.inScope
		}
		msg := fmt.Sprintf("event %d: the implementation did %q, the reference model %q\n  query: %s\n  program: %s\n  plan: %v\n  implementation trace: %v -> %s\n  model trace:          %v -> %s", d, at(events, d), at(m.events, d), sc.Query, strings.ReplaceAll(sc.Program, "\n", " "), sc.Plan, events, gotOutcome, m.events, wantOutcome)
		if !inScope {
			r.Out.OutOfScope = msg
			return
		}
		r.Fail("wrong-catch", "trace:"+kind(m.events, d)+"-expected:"+kind(events, d)+"-done", "%s", msg)
		return
	}
	if gotOutcome != wantOutcome {
		cls := func(s string) string {
			if i := strings.IndexByte(s, '('); i > 0 {
				return s[:i]
			}
			return s
		}
		msg := fmt.Sprintf("the query ended with %s, the reference model with %s (same events)\n  query: %s\n  program: %s\n  plan: %v\n  trace: %v", gotOutcome, wantOutcome, sc.Query, strings.ReplaceAll(sc.Program, "\n", " "), sc.Plan, events)
		if !m.inScope {
			r.Out.OutOfScope = msg
			return
		}
		r.Fail("wrong-catch", "outcome:"+cls(wantOutcome)+"-expected:"+cls(gotOutcome)+"-returned", "%s", msg)
	}
}

func tail(s []string, n int) []string {
	if len(s) > n {
		return s[:n]
	}
	return s
}

// c04BadVar names the variable used as the goal of a catch/3 (a query variable, or the local variable L in a clause body).
func c04BadVar(g *c04Goal) string {
	if g.U == 1 {
		return "L"
	}
	return fmt.Sprintf("V%d", g.V)
}
