package props

import (
	"fmt"
	"strings"
)

// Reference interpreter for the control skeletons of C04: left-to-right depth-first search over an immutable
// binding list, explicit catch frames, errors as return signals. It does not import the engine.

type mt struct { // model term
	f string // functor / atom name; "" for a variable
	v int    // variable id when f == ""
	a []*mt
}

func mAtom(s string) *mt          { return &mt{f: s} }
func mVar(v int) *mt              { return &mt{v: v} }
func mCmp(f string, a ...*mt) *mt { return &mt{f: f, a: a} }

type menv struct {
	v    int
	t    *mt
	next *menv
}

func (e *menv) lookup(v int) *mt {
	for ; e != nil; e = e.next {
		if e.v == v {
			return e.t
		}
	}
	return nil
}

func (e *menv) resolve(t *mt) *mt {
	for t.f == "" {
		b := e.lookup(t.v)
		if b == nil {
			return t
		}
		t = b
	}
	return t
}

func (e *menv) unify(a, b *mt) (*menv, bool) {
	a, b = e.resolve(a), e.resolve(b)
	switch {
	case a.f == "" && b.f == "":
		if a.v == b.v {
			return e, true
		}
		return &menv{v: a.v, t: b, next: e}, true
	case a.f == "":
		return &menv{v: a.v, t: b, next: e}, true
	case b.f == "":
		return &menv{v: b.v, t: a, next: e}, true
	}
	if a.f != b.f || len(a.a) != len(b.a) {
		return e, false
	}
	ok := true
	for i := range a.a {
		if e, ok = e.unify(a.a[i], b.a[i]); !ok {
			return e, false
		}
	}
	return e, true
}

// render prints terms the way kit.CanonTerm does (variables _A, _B.. by first occurrence in this observation).
type mRenamer struct{ names map[int]string }

func (r *mRenamer) name(v int) string {
	if n, ok := r.names[v]; ok {
		return n
	}
	n := "_" + string(rune('A'+len(r.names)%26))
	r.names[v] = n
	return n
}

func (e *menv) render(t *mt, r *mRenamer) string {
	t = e.resolve(t)
	if t.f == "" {
		return r.name(t.v)
	}
	if t.f == "." && len(t.a) == 2 {
		var xs []string
		cur := t
		for cur.f == "." && len(cur.a) == 2 {
			xs = append(xs, e.render(cur.a[0], r))
			cur = e.resolve(cur.a[1])
		}
		s := "[" + strings.Join(xs, ",")
		if cur.f != "[]" {
			s += "|" + e.render(cur, r)
		}
		return s + "]"
	}
	if len(t.a) == 0 {
		return t.f
	}
	var xs []string
	for _, x := range t.a {
		xs = append(xs, e.render(x, r))
	}
	f := t.f
	if f == "," {
		f = "','"
	}
	return f + "(" + strings.Join(xs, ",") + ")"
}

// copyTerm renames the unbound variables of t (a copy of the ball is thrown).
func (m *c04Model) copyTerm(e *menv, t *mt, ren map[int]*mt) *mt {
	t = e.resolve(t)
	if t.f == "" {
		if n, ok := ren[t.v]; ok {
			return n
		}
		n := m.fresh()
		ren[t.v] = n
		return n
	}
	if len(t.a) == 0 {
		return t
	}
	c := &mt{f: t.f, a: make([]*mt, len(t.a))}
	for i, x := range t.a {
		c.a[i] = m.copyTerm(e, x, ren)
	}
	return c
}

// ---- goals ----

type c04Goal struct {
	Op   string     `json:"op"`
	I    int        `json:"i,omitempty"`
	N    int        `json:"n,omitempty"`
	V    int        `json:"v,omitempty"`    // variable index (1-based) for bind / findall result
	T    string     `json:"t,omitempty"`    // term text for bind / throw / catcher
	Kind string     `json:"kind,omitempty"` // berr kind
	Args []*c04Goal `json:"args,omitempty"`
	U    int        `json:"u,omitempty"`    // user predicate index
	Cuts int        `json:"cuts,omitempty"` // seq: bit 0 = a cut before the first goal, bit i+1 = a cut after goal i
}

type c04Clause struct {
	Body *c04Goal `json:"body"`
	Cut  int      `json:"cut,omitempty"`
}

type sig int

const (
	sigFail sig = iota
	sigError
	sigStop // an enclosing once / if-then-else / negation / findall... stops the search; m.stopID says which
	sigCap
)

type c04Model struct {
	plan            []int
	visits          int
	events          []string
	scope           []bool // per event: had an error been raised or a catch been entered when it was produced?
	inScope         bool
	ball            *mt // the ball being propagated (already a copy), resolved in ballEnv
	nextVar         int
	stopID          int
	nextStop        int
	preds           [][]c04Clause
	vars            []*mt // V1..V4
	answers         int
	maxEv           int
	raised          int // errors raised
	caught          int // errors caught by a catch frame
	underCatch      int
	faultUnderCatch bool
}

func (m *c04Model) fresh() *mt { m.nextVar++; return mVar(m.nextVar) }

func (m *c04Model) event(s string) bool {
	m.events = append(m.events, s)
	m.scope = append(m.scope, m.inScope)
	return len(m.events) <= m.maxEv
}

// outcome of a fault site visit: what the plan says for this kind of site.
func c04Outcome(site string, v int) string {
	switch site {
	case "pt":
		switch v % 8 {
		case 5:
			return "fail"
		case 6:
			return "throw-" + []string{"b1", "b2", "b3"}[(v/8)%3]
		case 7:
			if (v/8)%2 == 0 {
				return "goerr"
			}
			return "panic"
		}
		return "ok"
	case "out":
		if v%8 >= 5 {
			return "deverr"
		}
		return "ok"
	case "alloc":
		if v%8 >= 5 {
			return "refused"
		}
		return "ok"
	}
	return "ok"
}

func (m *c04Model) visit(site string) string {
	v := 0
	if m.visits < len(m.plan) {
		v = m.plan[m.visits]
	}
	m.visits++
	return c04Outcome(site, v)
}

var mSys = mAtom("$sys") // an error that is not a Prolog term: Go error, panic, device error

func (m *c04Model) raise(ball *mt) sig {
	m.ball = ball
	m.inScope = true
	m.raised++
	if m.underCatch > 0 {
		m.faultUnderCatch = true
	}
	return sigError
}

func isoError(formal *mt) *mt { return mCmp("error", formal, mAtom("$ctx")) }

// parse the tiny term language used in scenarios: atoms, V1..V4, f(args), _ (fresh).
func (m *c04Model) term(s string, local map[string]*mt) *mt {
	s = strings.TrimSpace(s)
	if i := strings.IndexByte(s, '('); i > 0 && strings.HasSuffix(s, ")") {
		var args []*mt
		depth, start := 0, i+1
		for j := i + 1; j < len(s)-1; j++ {
			switch s[j] {
			case '(':
				depth++
			case ')':
				depth--
			case ',':
				if depth == 0 {
					args = append(args, m.term(s[start:j], local))
					start = j + 1
				}
			}
		}
		args = append(args, m.term(s[start:len(s)-1], local))
		return mCmp(s[:i], args...)
	}
	if s == "_" {
		return m.fresh()
	}
	if len(s) == 2 && s[0] == 'V' && s[1] >= '1' && s[1] <= '4' {
		return m.vars[s[1]-'1']
	}
	if s[0] >= 'A' && s[0] <= 'Z' {
		if t, ok := local[s]; ok {
			return t
		}
		t := m.fresh()
		local[s] = t
		return t
	}
	return mAtom(s)
}

// matchSys: does a catcher unify with an error that is not a Prolog term? Only a variable or error(Var, _) is assumed to.
func (m *c04Model) catcherMatchesSys(e *menv, c *mt) bool {
	c = e.resolve(c)
	if c.f == "" {
		return true
	}
	if c.f == "error" && len(c.a) == 2 {
		return e.resolve(c.a[0]).f == "" && e.resolve(c.a[1]).f == ""
	}
	return false
}

func (m *c04Model) solve(g *c04Goal, e *menv, local map[string]*mt, k func(*menv) sig) sig {
	if len(m.events) > m.maxEv {
		return sigCap
	}
	switch g.Op {
	case "true":
		return k(e)
	case "fail":
		return sigFail
	case "pt":
		out := m.visit("pt")
		if !m.event(fmt.Sprintf("pt %d %s", g.I, out)) {
			return sigCap
		}
		switch {
		case out == "ok":
			return k(e)
		case out == "fail":
			return sigFail
		case strings.HasPrefix(out, "throw-"):
			return m.raise(mAtom(out[6:]))
		default:
			return m.raise(mSys)
		}
	case "out":
		out := m.visit("out")
		if !m.event("out " + out) {
			return sigCap
		}
		if out == "ok" {
			return k(e)
		}
		return m.raise(mSys)
	case "alloc":
		out := m.visit("alloc")
		if !m.event("alloc " + out) {
			return sigCap
		}
		if out == "ok" {
			return k(e)
		}
		return m.raise(isoError(mCmp("resource_error", mAtom("memory"))))
	case "obs":
		r := &mRenamer{names: map[int]string{}}
		var xs []string
		for _, v := range m.vars {
			xs = append(xs, e.render(v, r))
		}
		if !m.event(fmt.Sprintf("obs %d [%s]", g.I, strings.Join(xs, ","))) {
			return sigCap
		}
		return k(e)
	case "bind":
		sides := strings.SplitN(g.T, " = ", 2)
		e2, ok := e.unify(m.term(sides[0], local), m.term(sides[1], local))
		if !ok {
			return sigFail
		}
		return k(e2)
	case "alt":
		for i := 0; i < g.N; i++ {
			if s := k(e); s != sigFail {
				return s
			}
			if i > 1000 {
				return sigCap // repeat/0 whose continuation keeps failing without an event: it does not terminate
			}
		}
		return sigFail
	case "and":
		return m.solve(g.Args[0], e, local, func(e2 *menv) sig { return m.solve(g.Args[1], e2, local, k) })
	case "or":
		if s := m.solve(g.Args[0], e, local, k); s != sigFail {
			return s
		}
		return m.solve(g.Args[1], e, local, k)
	case "once", "call", "ite", "not", "findall", "nth":
		// goals solved in a sub-search that is stopped from outside
		id := m.nextStop + 1
		m.nextStop++
		switch g.Op {
		case "call":
			// call/1 is transparent to solutions (opaque to cut only)
			s := m.solveIn(g.Args[0], e, local, id, k)
			if s == sigStop && m.stopID == id {
				return sigFail
			}
			return s
		case "nth":
			// call_nth(G, N), N an integer: the N-th solution of G, nothing of G afterwards
			var nth *menv
			got := false
			count := 0
			s := m.solveIn(g.Args[0], e, local, id, func(e2 *menv) sig {
				count++
				if count < g.N {
					return sigFail
				}
				nth, got = e2, true
				m.stopID = id
				return sigStop
			})
			if s == sigStop && m.stopID == id {
				s = sigFail
			} else if s != sigFail {
				return s
			}
			if !got {
				return sigFail
			}
			return k(nth)
		case "once", "ite", "not":
			var first *menv
			found := false
			s := m.solveIn(g.Args[0], e, local, id, func(e2 *menv) sig { first, found = e2, true; m.stopID = id; return sigStop })
			if s == sigStop && m.stopID == id {
				s = sigFail
			} else if s != sigFail {
				return s
			}
			switch g.Op {
			case "once":
				if !found {
					return sigFail
				}
				return k(first)
			case "not":
				if found {
					return sigFail
				}
				return k(e)
			default:
				if found {
					return m.solve(g.Args[1], first, local, k)
				}
				return m.solve(g.Args[2], e, local, k)
			}
		default: // findall(x, G, Vi)
			// Instances must be a partial list or a list (checked before G runs)
			for cur := e.resolve(m.vars[g.V-1]); cur.f != ""; cur = e.resolve(cur.a[1]) {
				if cur.f == "[]" && len(cur.a) == 0 {
					break
				}
				if cur.f != "." || len(cur.a) != 2 {
					return m.raise(isoError(mCmp("type_error", mAtom("list"), e.resolve(m.vars[g.V-1]))))
				}
			}
			n := 0
			s := m.solveIn(g.Args[0], e, local, id, func(*menv) sig { n++; return sigFail })
			if s == sigStop && m.stopID == id {
				s = sigFail
			}
			if s != sigFail {
				return s
			}
			l := mAtom("[]")
			for i := 0; i < n; i++ {
				l = mCmp(".", mAtom("x"), l)
			}
			e2, ok := e.unify(m.vars[g.V-1], l)
			if !ok {
				return sigFail
			}
			return k(e2)
		}
	case "throw":
		t := e.resolve(m.term(g.T, local))
		if t.f == "" {
			return m.raise(isoError(mAtom("instantiation_error")))
		}
		return m.raise(m.copyTerm(e, t, map[int]*mt{}))
	case "berr":
		switch g.Kind {
		case "culprit":
			v := m.term(g.T, local)
			e2, ok := e.unify(v, mAtom("a"))
			if !ok {
				return sigFail
			}
			m.inScope = true
			return m.raise(isoError(mCmp("type_error", mAtom("atom"), mCmp("f", e2.resolve(v)))))
		case "eval", "evalcmp":
			return m.raise(isoError(mCmp("evaluation_error", mAtom("zero_divisor"))))
		case "type":
			return m.raise(isoError(mCmp("type_error", mAtom("evaluable"), mCmp("/", mAtom("foo"), mAtom("0")))))
		case "inst":
			return m.raise(isoError(mAtom("instantiation_error")))
		case "arg":
			return m.raise(isoError(mCmp("type_error", mAtom("integer"), mAtom("x"))))
		default:
			return m.raise(isoError(mCmp("existence_error", mAtom("procedure"), mCmp("/", mAtom("undefined_pred_c04"), mAtom("0")))))
		}
	case "catch":
		m.inScope = true
		fromCont := false
		catcher := m.term(g.T, local)
		inner := g.Args[0]
		switch g.N {
		case 1: // catch((A, !, B), ...): the cut commits to the first solution of A, locally
			inner = &c04Goal{Op: "and", Args: []*c04Goal{{Op: "once", Args: []*c04Goal{g.Args[0]}}, g.Args[2]}}
		case 2:
			inner = &c04Goal{Op: "badgoal", Kind: g.Kind, T: c04BadVar(g), I: g.I}
		}
		m.underCatch++
		cid := m.nextStop + 1
		m.nextStop++
		s := m.solveIn(inner, e, local, cid, func(e2 *menv) sig {
			m.underCatch--
			s2 := k(e2)
			m.underCatch++
			if s2 == sigError {
				fromCont = true // raised by the continuation of an exited catch/3: not this frame's business
			}
			return s2
		})
		m.underCatch--
		if s == sigStop && m.stopID == cid {
			return sigFail // a cut in the goal of catch/3 is local to it
		}
		if s != sigError || fromCont {
			return s
		}
		ball := m.ball
		if ball == mSys {
			if !m.catcherMatchesSys(e, catcher) {
				return s
			}
			m.caught++
			return m.recovery(g.Args[1], e, local, k) // bindings of the catcher to an unknown term are never observed (catchers for these use _)
		}
		e2, ok := e.unify(catcher, ball) // e: the bindings at the time catch/3 was called
		if !ok {
			return s
		}
		m.caught++
		return m.recovery(g.Args[1], e2, local, k)
	case "badgoal":
		// what call/1 does with a goal that is not callable (raised before anything of the goal runs)
		switch g.Kind {
		case "int":
			return m.raise(isoError(mCmp("type_error", mAtom("callable"), mAtom("1"))))
		case "conj-int":
			return m.raise(isoError(mCmp("type_error", mAtom("callable"), mCmp(",", mCmp("pt", mAtom(fmt.Sprint(g.I))), mAtom("1")))))
		}
		t := e.resolve(m.term(g.T, local))
		switch {
		case t.f == "":
			return m.raise(isoError(mAtom("instantiation_error")))
		case len(t.a) == 0 && t.f != "" && strings.Trim(t.f, "0123456789") == "":
			// a number (the model writes numbers as atoms): not callable
			return m.raise(isoError(mCmp("type_error", mAtom("callable"), t)))
		case t.f == "." || t.f == "[]":
			// a list as a goal: not modelled, the run is dropped
			m.events = append(m.events, make([]string, m.maxEv+1)...)
			return sigCap
		}
		return m.raise(isoError(mCmp("existence_error", mAtom("procedure"), mCmp("/", mAtom(t.f), mAtom(fmt.Sprint(len(t.a)))))))
	case "rec":
		// rec(D, T): the recursion unfolded. rec(0, T) :- pt(90), throw(b(T)).
		// rec(N, T) :- N > 0, N1 is N - 1, catch(rec(N1, T), b(N), pt(91)), pt(92).
		level := &c04Goal{Op: "and", Args: []*c04Goal{{Op: "pt", I: 90}, {Op: "throw", T: fmt.Sprintf("b(%d)", g.V)}}}
		for n := 1; n <= g.N; n++ {
			level = &c04Goal{Op: "and", Args: []*c04Goal{{Op: "catch", T: fmt.Sprintf("b(%d)", n), Args: []*c04Goal{level, {Op: "pt", I: 91}}}, {Op: "pt", I: 92}}}
		}
		return m.solve(level, e, map[string]*mt{}, k)
	case "user":
		// u_k(Arg): clauses tried in order; each gets fresh local variables
		arg := m.term(g.T, local)
		id := m.nextStop + 1
		m.nextStop++
		for _, cl := range m.preds[g.U] {
			loc := map[string]*mt{"A": arg}
			s := m.solveBody(cl, e, loc, k, id)
			if s == sigStop && m.stopID == id {
				return sigFail // a cut in this clause: no further clauses
			}
			if s != sigFail {
				return s
			}
		}
		return sigFail
	}
	panic("c04 model: unknown goal " + g.Op)
}

// recovery runs the Recovery goal of a catch/3: it is called like call/1 calls a goal, so a cut in it is local to it.
func (m *c04Model) recovery(g *c04Goal, e *menv, local map[string]*mt, k func(*menv) sig) sig {
	id := m.nextStop + 1
	m.nextStop++
	s := m.solveIn(g, e, local, id, k)
	if s == sigStop && m.stopID == id {
		return sigFail
	}
	return s
}

// solveIn solves g as the whole argument of a construct that is opaque to cut (clause body, call/1, once/1, \\+, the
// condition of if-then-else, findall/3, the goal of catch/3): id names that construct's sub-search. Only there does the
// generator place cuts, as members of a flat conjunction ("seq").
func (m *c04Model) solveIn(g *c04Goal, e *menv, local map[string]*mt, id int, k func(*menv) sig) sig {
	if g.Op != "seq" {
		return m.solve(g, e, local, k)
	}
	var from func(i int, e *menv) sig
	cutThen := func(i int, e *menv) sig {
		// the cut succeeds; when what follows it is exhausted, nothing to its left in this scope is retried
		if s := from(i, e); s != sigFail {
			return s
		}
		m.stopID = id
		return sigStop
	}
	from = func(i int, e *menv) sig {
		if i == len(g.Args) {
			return k(e)
		}
		return m.solve(g.Args[i], e, local, func(e2 *menv) sig {
			if g.Cuts&(1<<uint(i+1)) != 0 {
				return cutThen(i+1, e2)
			}
			return from(i+1, e2)
		})
	}
	if g.Cuts&1 != 0 {
		return cutThen(0, e)
	}
	return from(0, e)
}

// solveBody runs a clause body; a clause-level cut after the Cut-th conjunct commits to this clause.
func (m *c04Model) solveBody(cl c04Clause, e *menv, loc map[string]*mt, k func(*menv) sig, id int) sig {
	if cl.Cut == 0 {
		return m.solveIn(cl.Body, e, loc, id, k)
	}
	// Body = and(G1, G2) with the cut between them: G1, !, G2
	g1, g2 := cl.Body.Args[0], cl.Body.Args[1]
	return m.solve(g1, e, loc, func(e2 *menv) sig {
		if s := m.solve(g2, e2, loc, k); s != sigFail {
			return s
		}
		m.stopID = id
		return sigStop
	})
}

// run executes the query and returns the outcome: "exhausted", "cap" or the canonical error.
func (m *c04Model) run(q *c04Goal, maxAnswers int) string {
	s := m.solve(q, nil, map[string]*mt{}, func(e *menv) sig {
		r := &mRenamer{names: map[int]string{}}
		var xs []string
		for _, v := range m.vars {
			xs = append(xs, e.render(v, r))
		}
		m.answers++
		if !m.event("answer [" + strings.Join(xs, ",") + "]") {
			return sigCap
		}
		if m.answers >= maxAnswers {
			return sigCap
		}
		return sigFail
	})
	switch s {
	case sigFail:
		return "exhausted"
	case sigError:
		if m.ball == mSys {
			return "sys"
		}
		var e *menv
		r := &mRenamer{names: map[int]string{}}
		b := m.ball
		if b.f == "error" && len(b.a) == 2 {
			return "error(" + e.render(b.a[0], r) + ",_)"
		}
		return "ball(" + e.render(b, r) + ")"
	}
	return "cap"
}
