package props

import (
	"context"
	"encoding/json"
	"errors"
	"fmt"
	"io"
	"sort"
	"strings"

	"verif/sim/kit"

	"github.com/ichiban/prolog"
	"github.com/ichiban/prolog/engine"
)

// ---------------------------------------------------------------------------
// C09 — database updates follow the logical update view; retract removes its match
// ---------------------------------------------------------------------------

type c09 struct{}

func init() { Register(c09{}) }

func (c09) ID() string { return "C09" }

func (c09) Meta() kit.Meta {
	return kit.Meta{
		Level: "exploration",
		Rule: "a case is either (cursor layer) a history of <= 30 operations on one interpreter with up to 4 simultaneously open Solutions - each a call d_i(K,S), a clause/2 or a retract/1 on one of 3 dynamic predicates, K bound or not - stepped, closed or abandoned after a cancel, interleaved with immediate asserta/assertz/retract/retractall/abolish and failing updates, every search goroutine scheduled by the tape; or (in-query layer) one query '(Gen, note, Act1..Act3, fail ; true)' where Gen is a call, clause/2 or retract/1 and the Acts update the same or another predicate, optionally aborted by a failing update or by a context cancelled at poll k. " +
			"Clauses carry unique stamps (a sub-mode reuses stamps to get true duplicates); some have a variable first argument, some are rules. " +
			"distinct = distinct (history, schedule). non-trivial = an update hit a predicate while a cursor on that predicate was open and later stepped, or an in-query loop updated the predicate it enumerates.",
		Assumptions: []string{
			"clause-store model: per predicate an ordered list of (uid, clause); a cursor takes its snapshot when its first answer is requested (that is when the goal is called); a retract cursor removes the uid it unified with if it is still there",
			"when a retract/1 enumeration reaches a clause of its call-time snapshot that something else has removed meanwhile, it still answers with it (a further match of the call-time snapshot) and removes nothing (every clause is removed at most once)",
			"after abolish/1 a call may answer nothing or raise existence_error; retractall/1 of a non-existent procedure is not generated",
			"a cancelled in-query loop must leave the database in the model's state after the last reported step or after the one following it (the cancel may land between an update and its report)",
		},
		Real: []string{"asserta/1, assertz/1, retract/1, retractall/1 (bootstrap.pl), abolish/1, clause/2, user-defined procedure calls (clauses.call snapshots)", "Solutions / search goroutines of several open queries", "trampoline"},
		Stub: []string{"goroutine scheduling (cooperative scheduler)", "context (SimCtx)"},
	}
}

func (c09) Phases() []kit.Phase {
	return []kit.Phase{{Name: "sampled", Count: func(tier string) uint64 {
		if tier == "thorough" {
			return 1200000
		}
		return 24000
	}}}
}

// ---- model ----

type c09Clause struct {
	uid  int
	k    string // "1".."3" or "_"
	s    string
	rule bool
}

// body is the body of a rule: "true" or a goal that succeeds but is not true (decided by the stamp, so that it is the
// same wherever the clause text is built); "" for a fact.
func (c c09Clause) body() string {
	if !c.rule {
		return ""
	}
	switch c.s[len(c.s)-1] % 3 {
	case 0:
		return "true"
	case 1:
		return "atom(a)"
	}
	return "share" // a goal that shares a variable with the head: K = K, written with the clause's first argument
}

// headOnly: does retract(Head), i.e. retract((Head :- true)), match this clause's body?
func (c c09Clause) headOnly() bool { return c.body() == "" || c.body() == "true" }

func (c c09Clause) text(pred int) string {
	k := c.k
	if c.body() == "share" {
		if k == "_" {
			k = "Sh" // head and body share it
		}
		return fmt.Sprintf("(d%d(%s, %s) :- %s = %s)", pred, k, c.s, k, k)
	}
	h := fmt.Sprintf("d%d(%s, %s)", pred, k, c.s)
	if c.rule {
		return "(" + h + " :- " + c.body() + ")"
	}
	return h
}

type c09Store struct {
	preds  [4][]c09Clause // index 1..3
	gone   [4]bool        // abolished and not re-created: a call may raise existence_error
	nextID int
}

func (st *c09Store) clone() *c09Store {
	c := *st
	for i := range c.preds {
		c.preds[i] = append([]c09Clause(nil), st.preds[i]...)
	}
	return &c
}

func (st *c09Store) dump() string {
	var parts []string
	for p := 1; p <= 3; p++ {
		var xs []string
		for _, c := range st.preds[p] {
			xs = append(xs, c.k+"-"+c.s)
		}
		parts = append(parts, fmt.Sprintf("d%d=[%s]", p, strings.Join(xs, ",")))
	}
	return strings.Join(parts, " ")
}

func (st *c09Store) assert(pred int, front bool, k, s string, rule bool) {
	st.nextID++
	c := c09Clause{uid: st.nextID, k: k, s: s, rule: rule}
	if front {
		st.preds[pred] = append([]c09Clause{c}, st.preds[pred]...)
	} else {
		st.preds[pred] = append(st.preds[pred], c)
	}
	st.gone[pred] = false
}

func (st *c09Store) remove(pred, uid int) bool {
	for i, c := range st.preds[pred] {
		if c.uid == uid {
			st.preds[pred] = append(append([]c09Clause(nil), st.preds[pred][:i]...), st.preds[pred][i+1:]...)
			return true
		}
	}
	return false
}

func (st *c09Store) live(pred, uid int) bool {
	for _, c := range st.preds[pred] {
		if c.uid == uid {
			return true
		}
	}
	return false
}

func c09Match(c c09Clause, kpat string) bool { return kpat == "_" || c.k == "_" || c.k == kpat }

// ---- scenario ----

type c09Op struct {
	Op     string `json:"op"` // open step close abandon update dump
	Cur    int    `json:"cur,omitempty"`
	Kind   string `json:"kind,omitempty"` // call clause retract retract-rule
	Pred   int    `json:"pred,omitempty"`
	K      string `json:"k,omitempty"`
	Update string `json:"update,omitempty"` // asserta assertz retract retractall abolish bad-body static
	S      string `json:"s,omitempty"`
	Rule   bool   `json:"rule,omitempty"`
	Ground bool   `json:"ground,omitempty"` // retractall with a ground head d(k, s)
}

type c09Act struct {
	Act  string `json:"act"` // asserta assertz retract once-retract retractall abolish bad
	Pred int    `json:"pred"`
	K    string `json:"k"` // "1".."3", "_" or "K" (the generator's K)
	S    string `json:"s,omitempty"`
	Rule bool   `json:"rule,omitempty"`

	Ground bool `json:"ground,omitempty"`             // retractall with a ground head d(k, s)
	Late   int  `json:"bound_after_assert,omitempty"` // asserta/assertz of d(V, s) with V a fresh variable of the query that is bound to this constant right after the assert: the stored clause keeps its variable
}

type c09Scenario struct {
	Layer    string   `json:"layer"` // cursor | inquery
	Policy   int      `json:"policy"`
	Initial  []string `json:"initial"`
	Ops      []c09Op  `json:"ops,omitempty"`
	Gen      *c09Op   `json:"gen,omitempty"`
	Acts     []c09Act `json:"acts,omitempty"`
	Cancel   int      `json:"cancel_at_poll,omitempty"`
	Query    string   `json:"query,omitempty"`
	Dups     bool     `json:"duplicate_stamps"`
	FromText bool     `json:"initial_clauses_from_a_consulted_text"`
}

func c09K(g *kit.Lane, allowVar bool) string {
	if allowVar && g.Choose(4) == 0 {
		return "_"
	}
	return fmt.Sprint(1 + g.Choose(3))
}

func c09Gen(r *kit.Run) (*c09Scenario, *c09Store) {
	g := r.Tape.Lane("gen")
	sc := &c09Scenario{Layer: "cursor", Policy: g.Choose(kit.NumPolicies)}
	if g.Choose(3) == 0 {
		sc.Layer = "inquery"
	} else if g.Choose(8) == 0 {
		sc.Layer = "disj"
		return sc, &c09Store{}
	} else if g.Choose(10) == 0 {
		sc.Layer = "zero"
		return sc, &c09Store{}
	}
	sc.Dups = g.Choose(4) == 0
	sc.FromText = g.Choose(2) == 0
	st := &c09Store{}
	stamp := 0
	next := func() string {
		stamp++
		if sc.Dups {
			return fmt.Sprintf("s%d", 1+stamp%2)
		}
		return fmt.Sprintf("s%d", stamp)
	}
	for p := 1; p <= 3; p++ {
		n := g.Choose(5)
		for i := 0; i < n; i++ {
			k, s, rule := c09K(g, true), next(), g.Choose(5) == 0
			st.assert(p, false, k, s, rule)
			sc.Initial = append(sc.Initial, st.preds[p][len(st.preds[p])-1].text(p))
		}
	}
	if sc.Layer == "cursor" {
		n := 2 + g.Choose(29)
		open := map[int]bool{}
		nextCur := 0
		for i := 0; i < n; i++ {
			var op c09Op
			var openList []int
			for c := 0; c < nextCur; c++ {
				if open[c] {
					openList = append(openList, c)
				}
			}
			choice := g.Weighted(3, 6, 5, 1, 1, 1)
			if len(openList) == 0 && (choice == 1 || choice == 3 || choice == 4) {
				choice = 0
			}
			if choice == 0 && len(openList) >= 4 {
				choice = 1
			}
			switch choice {
			case 0:
				op = c09Op{Op: "open", Cur: nextCur, Pred: 1 + g.Choose(3), K: c09K(g, true)}
				op.Kind = []string{"call", "retract", "clause", "retract-rule"}[g.Weighted(4, 4, 1, 1)]
				open[nextCur] = true
				nextCur++
			case 1:
				op = c09Op{Op: "step", Cur: openList[g.Choose(len(openList))]}
			case 2:
				op = c09Op{Op: "update", Pred: 1 + g.Choose(3)}
				op.Update = []string{"asserta", "assertz", "retract", "retractall", "abolish", "bad-body", "static"}[g.Weighted(6, 6, 4, 2, 1, 1, 1)]
				op.K = c09K(g, true)
				op.S = next()
				op.Rule = g.Choose(5) == 0
				if op.Update == "retractall" && op.K != "_" && g.Choose(2) == 0 {
					op.Ground = true
					op.S = fmt.Sprintf("s%d", 1+g.Choose(stamp))
				}
			case 3:
				op = c09Op{Op: "close", Cur: openList[g.Choose(len(openList))]}
				open[op.Cur] = false
			case 4:
				op = c09Op{Op: "abandon", Cur: openList[g.Choose(len(openList))]}
				open[op.Cur] = false
			default:
				op = c09Op{Op: "dump"}
			}
			sc.Ops = append(sc.Ops, op)
		}
		return sc, st
	}
	// in-query layer
	gen := &c09Op{Pred: 1 + g.Choose(3), K: c09K(g, true)}
	gen.Kind = []string{"call", "retract", "clause", "retract-rule"}[g.Weighted(4, 5, 1, 1)]
	sc.Gen = gen
	na := 1 + g.Choose(3)
	for i := 0; i < na; i++ {
		a := c09Act{Pred: gen.Pred}
		if g.Choose(3) == 0 {
			a.Pred = 1 + g.Choose(3)
		}
		a.Act = []string{"asserta", "assertz", "retract", "once-retract", "retractall", "abolish", "bad"}[g.Weighted(6, 6, 4, 2, 2, 1, 1)]
		a.K = c09K(g, true)
		if g.Choose(4) == 0 {
			a.K = "K"
		}
		a.S = next()
		a.Rule = g.Choose(6) == 0
		if (a.Act == "asserta" || a.Act == "assertz") && g.Choose(5) == 0 {
			a.K, a.Late = "_", 1+g.Choose(3)
		}
		if a.Act == "retractall" && a.K != "_" && a.K != "K" && g.Choose(2) == 0 {
			a.Ground = true
			a.S = fmt.Sprintf("s%d", 1+g.Choose(stamp))
		}
		sc.Acts = append(sc.Acts, a)
	}
	if g.Choose(3) == 0 {
		sc.Cancel = 3 + g.Choose(120)
	}
	return sc, st
}

// ---- cursors in the model ----

type c09Cursor struct {
	kind     string
	pred     int
	k        string
	snapshot []c09Clause
	started  bool
	pos      int
	done     bool
	err      string // "" or "existence-or-empty"
}

func c09Goal(kind string, pred int, k string) string {
	kk := k
	if k == "_" {
		kk = "K"
	}
	switch kind {
	case "call":
		return fmt.Sprintf("d%d(%s, S)", pred, kk)
	case "clause":
		return fmt.Sprintf("clause(d%d(%s, S), B)", pred, kk)
	case "retract":
		return fmt.Sprintf("retract(d%d(%s, S))", pred, kk)
	case "retract-rule":
		return fmt.Sprintf("retract((d%d(%s, S) :- B))", pred, kk)
	}
	kit.Bug("c09 goal kind %q", kind)
	return ""
}

// c09Answer is the canonical answer text for clause c under the goal (variables B K S in Vars order).
func c09Answer(kind, k string, c c09Clause) string {
	var parts []string
	if kind == "clause" || kind == "retract-rule" {
		b := c.body()
		if b == "" {
			b = "true"
		}
		if b == "share" {
			// the body's variable is the head's first argument: it has whatever the goal's pattern gave that argument
			kk := "_A"
			if k != "_" {
				kk = k
			} else if c.k != "_" {
				kk = c.k
			}
			b = fmt.Sprintf("=(%s,%s)", kk, kk)
		}
		parts = append(parts, "B="+b)
	}
	if k == "_" {
		if c.k == "_" {
			parts = append(parts, "K=_A")
		} else {
			parts = append(parts, "K="+c.k)
		}
	}
	parts = append(parts, "S="+c.s)
	return strings.Join(parts, " ")
}

// candidates returns the answers acceptable for the next step of cursor cu: (answer text, position after it,
// uid to remove or 0). An empty answer text means "no more answers".
type c09Cand struct {
	ans   string
	pos   int
	uid   int
	ghost bool
}

func (cu *c09Cursor) candidates(st *c09Store) []c09Cand {
	var out []c09Cand
	retract := strings.HasPrefix(cu.kind, "retract")
	for i := cu.pos; i < len(cu.snapshot); i++ {
		c := cu.snapshot[i]
		if !c09Match(c, cu.k) || (cu.kind == "retract" && !c.headOnly()) {
			continue
		}
		if retract && !st.live(cu.pred, c.uid) {
			// already removed by something else: it is still a match of the call-time snapshot - the step answers with it and
			// removes nothing ("further matches of the call-time snapshot on backtracking", "removed at most once")
			out = append(out, c09Cand{ans: c09Answer(cu.kind, cu.k, c), pos: i + 1, ghost: true})
			return out
		}
		out = append(out, c09Cand{ans: c09Answer(cu.kind, cu.k, c), pos: i + 1, uid: c.uid})
		return out
	}
	out = append(out, c09Cand{ans: "", pos: len(cu.snapshot)})
	return out
}

// ---- execution ----

func (c09) Exec(r *kit.Run) {
	sc, st := c09Gen(r)
	r.Out.Scenario = sc
	if sc.Layer == "inquery" {
		c09ExecInQuery(r, sc, st)
		return
	}
	if sc.Layer == "disj" {
		c09ExecDisj(r, sc)
		return
	}
	if sc.Layer == "zero" {
		leftover, other := kit.Bubble(r.T, func() {
			c09ExecZero(r, sc)
			kit.Settle()
		})
		if other != nil {
			kit.Bug("c09 zero harness panic: %v", other)
		}
		if leftover {
			r.Fail("leak", "search-goroutine-alive", "a search goroutine was left behind")
		}
		return
	}
	sched := kit.NewSched(r, sc.Policy)
	var status string
	nontrivial := false
	leftover, other := kit.Bubble(r.T, func() {
		interp := prolog.New(strings.NewReader(""), io.Discard)
		c09Load(interp, sc)
		kit.Settle()
		prolog.SimYield = sched.Yield
		defer func() { prolog.SimYield = nil }()
		sched.Go(func() {
			type live struct {
				sols  *prolog.Solutions
				ctx   *kit.SimCtx
				m     *c09Cursor
				dirty bool // an update hit its predicate after it was opened
			}
			curs := map[int]*live{}
			check := func(where string) bool {
				got := c09Dump(interp)
				if got != st.dump() {
					r.Fail("db-mismatch", "db-differs:"+c09Where(where), "after %s the database is\n  %s\nthe model has\n  %s", where, got, st.dump())
					return false
				}
				return true
			}
			for n, op := range sc.Ops {
				if r.Failed() {
					break
				}
				sched.UserYield(fmt.Sprintf("U:op%d", n))
				switch op.Op {
				case "open":
					ctx := kit.NewSimCtx(0, context.Canceled)
					goal := c09Goal(op.Kind, op.Pred, op.K)
					sols, err := interp.QueryContext(ctx, goal+".")
					if err != nil {
						kit.Bug("c09 query: %v", err)
					}
					curs[op.Cur] = &live{sols: sols, ctx: ctx, m: &c09Cursor{kind: op.Kind, pred: op.Pred, k: op.K}}
					r.Logf("op %d open cursor %d: %s", n, op.Cur, goal)
				case "step":
					l := curs[op.Cur]
					m := l.m
					if !m.started {
						m.started = true
						m.snapshot = append([]c09Clause(nil), st.preds[m.pred]...)
						if st.gone[m.pred] && m.kind == "call" {
							m.err = "existence-or-empty"
						}
					}
					ok := l.sols.Next()
					got := ""
					if ok {
						v := kit.NewVars()
						l.sols.Scan(v)
						got = v.String()
					}
					err := l.sols.Err()
					r.Logf("op %d step cursor %d (%s) -> %v %q err=%s", n, op.Cur, c09Goal(m.kind, m.pred, m.k), ok, got, kit.CanonErr(err))
					if m.done {
						if ok {
							r.Fail("answer-mismatch", "answer-after-end", "cursor %d answered %q after it had ended", op.Cur, got)
						}
						continue
					}
					if !ok && err != nil {
						if m.err == "existence-or-empty" && strings.HasPrefix(kit.CanonErr(err), "error(existence_error(procedure") {
							m.done = true
							continue
						}
						class := "update-error"
						if strings.Contains(err.Error(), "panic") {
							class = "panic-residue"
						}
						r.Fail(class, "cursor-step-raised:"+m.kind, "stepping cursor %d (%s) raised %s\n  model db: %s", op.Cur, c09Goal(m.kind, m.pred, m.k), kit.CanonErr(err), st.dump())
						continue
					}
					cands := m.candidates(st)
					var hit *c09Cand
					for i := range cands {
						if cands[i].ans == got {
							hit = &cands[i]
							break
						}
					}
					if hit == nil {
						var want []string
						for _, c := range cands {
							if c.ans == "" {
								want = append(want, "<no more answers>")
							} else {
								want = append(want, c.ans)
							}
						}
						dirty := ""
						if l.dirty {
							dirty = ":after-update"
						}
						r.Fail("answer-mismatch", "cursor-answer:"+m.kind+dirty, "cursor %d (%s) answered %q (ok=%v); by its call-time snapshot the next answer is %s\n  snapshot: %v from position %d\n  model db: %s", op.Cur, c09Goal(m.kind, m.pred, m.k), got, ok, strings.Join(want, " or "), c09Texts(m.snapshot, m.pred), m.pos, st.dump())
						continue
					}
					if len(cands) > 1 {
						r.Probe("retract-cursor-reached-removed-clause")
					}
					m.pos = hit.pos
					if hit.ans == "" {
						m.done = true
					}
					if hit.uid != 0 && strings.HasPrefix(m.kind, "retract") {
						st.remove(m.pred, hit.uid)
						for _, o := range curs {
							if o != l && o.m.pred == m.pred && !o.m.done {
								o.dirty = true
							}
						}
					}
					if l.dirty && ok {
						nontrivial = true
					}
					check(fmt.Sprintf("step of cursor %d (%s)", op.Cur, m.kind))
				case "close", "abandon":
					l := curs[op.Cur]
					if op.Op == "abandon" {
						l.ctx.Fire()
						r.Fault("cancel-open-cursor")
					} else {
						r.Fault("close-open-cursor")
					}
					l.sols.Close()
					l.m.done = true
					r.Logf("op %d %s cursor %d", n, op.Op, op.Cur)
					delete(curs, op.Cur)
					check(op.Op + " of a cursor")
				case "update":
					goal, apply, mustErr := c09Update(op, st)
					err := interp.QuerySolution(goal + ".").Err()
					r.Logf("op %d %s -> %s", n, goal, kit.CanonErr(err))
					switch {
					case mustErr:
						r.Fault("failing-update")
						if err == nil || errors.Is(err, prolog.ErrNoSolutions) {
							r.Fail("update-error", "invalid-update-accepted:"+op.Update, "%s did not raise", goal)
						}
					case err != nil && !errors.Is(err, prolog.ErrNoSolutions):
						class := "update-error"
						if strings.Contains(err.Error(), "panic") {
							class = "panic-residue"
						}
						r.Fail(class, "update-raised:"+op.Update, "%s raised %s\n  model db: %s", goal, kit.CanonErr(err), st.dump())
					default:
						found := apply()
						if found != (err == nil) {
							r.Fail("answer-mismatch", "update-result:"+op.Update, "%s: success=%v, the model says %v\n  model db: %s", goal, err == nil, found, st.dump())
						}
						for _, o := range curs {
							if o.m.pred == op.Pred && !o.m.done {
								o.dirty = true
							}
						}
					}
					check(goal)
				case "dump":
					check("dump")
				}
			}
			var left []int
			for c := range curs {
				left = append(left, c)
			}
			sort.Ints(left) // (map order must not decide the schedule)
			for _, c := range left {
				sched.UserYield("U:cleanup")
				curs[c].sols.Close()
			}
			sched.UserYield("U:final")
			check("the whole history")
		})
		status = sched.Drive()
		if status == "cap" {
			sched.Stop()
		}
	})
	r.Steps(sched.StepCount)
	r.Out.Interleaving = sched.Hash()
	switch {
	case other != nil:
		kit.Bug("c09 harness panic: %v", other)
	case status == "blocked":
		r.Fail("blocked", "blocked", "a call on the database never returned")
	case status == "cap":
		r.Out.Inconclusive = "cap"
	case leftover || len(sched.Alive()) > 0:
		r.Fail("leak", "search-goroutine-alive", "search goroutines %v still alive after all cursors were closed", sched.Alive())
	}
	r.Out.NonTrivial = nontrivial
	b, _ := json.Marshal(sc)
	r.Out.ScenarioKey = string(b) + fmt.Sprintf("|%x", sched.Hash())
}

func c09Texts(cs []c09Clause, pred int) []string {
	var out []string
	for _, c := range cs {
		out = append(out, c.text(pred))
	}
	return out
}

func c09Load(interp *prolog.Interpreter, sc *c09Scenario) {
	if sc.FromText {
		// the initial clauses come from one consulted text (the three predicates one after the other) instead of assertz
		var sb strings.Builder
		sb.WriteString(":- dynamic(d1/2). :- dynamic(d2/2). :- dynamic(d3/2).\n")
		for p := 1; p <= 3; p++ {
			for _, c := range sc.Initial {
				if strings.HasPrefix(strings.TrimPrefix(c, "("), fmt.Sprintf("d%d(", p)) {
					sb.WriteString(strings.TrimSuffix(strings.TrimPrefix(c, "("), ")"))
					if !strings.HasPrefix(c, "(") {
						sb.WriteString(")")
					}
					sb.WriteString(".\n")
				}
			}
		}
		if err := interp.Exec(sb.String()); err != nil {
			kit.Bug("c09 load from text: %v\n%s", err, sb.String())
		}
		return
	}
	if err := interp.Exec(":- dynamic(d1/2). :- dynamic(d2/2). :- dynamic(d3/2)."); err != nil {
		kit.Bug("c09 load: %v", err)
	}
	for _, c := range sc.Initial {
		if err := interp.QuerySolution("assertz(" + c + ").").Err(); err != nil {
			kit.Bug("c09 initial assertz(%s): %v", c, err)
		}
	}
}

// c09Dump lists the three predicates through clause/2 (K-S per clause; a variable K prints as _).
func c09Dump(interp *prolog.Interpreter) string {
	var parts []string
	for p := 1; p <= 3; p++ {
		sols, err := interp.Query(fmt.Sprintf("clause(d%d(K, S), _).", p))
		if err != nil {
			kit.Bug("c09 dump: %v", err)
		}
		var xs []string
		for sols.Next() {
			v := kit.NewVars()
			sols.Scan(v)
			k := v.Get("K")
			if strings.HasPrefix(k, "_") {
				k = "_"
			}
			xs = append(xs, k+"-"+v.Get("S"))
		}
		if err := sols.Err(); err != nil {
			xs = append(xs, "ERROR:"+kit.CanonErr(err))
		}
		sols.Close()
		parts = append(parts, fmt.Sprintf("d%d=[%s]", p, strings.Join(xs, ",")))
	}
	return strings.Join(parts, " ")
}

// c09Update returns the goal text of an immediate update, a function applying it to the model (returning whether the
// goal succeeds) and whether it must raise.
func c09Update(op c09Op, st *c09Store) (string, func() bool, bool) {
	c := c09Clause{k: op.K, s: op.S, rule: op.Rule}
	switch op.Update {
	case "asserta", "assertz":
		return fmt.Sprintf("%s(%s)", op.Update, c.text(op.Pred)), func() bool {
			st.assert(op.Pred, op.Update == "asserta", op.K, op.S, op.Rule)
			return true
		}, false
	case "retract":
		kk := op.K
		if kk == "_" {
			kk = "K"
		}
		return fmt.Sprintf("retract(d%d(%s, _))", op.Pred, kk), func() bool {
			for _, cl := range st.preds[op.Pred] {
				if c09Match(cl, op.K) && cl.headOnly() {
					st.remove(op.Pred, cl.uid)
					return true
				}
			}
			return false
		}, false
	case "retractall":
		if st.gone[op.Pred] {
			// not generated on a non-existent procedure: turn into an assertz
			return fmt.Sprintf("assertz(%s)", c.text(op.Pred)), func() bool {
				st.assert(op.Pred, false, op.K, op.S, op.Rule)
				return true
			}, false
		}
		kk := op.K
		if kk == "_" {
			kk = "_"
		}
		sArg := "_"
		if op.Ground {
			sArg = op.S
		}
		return fmt.Sprintf("retractall(d%d(%s, %s))", op.Pred, kk, sArg), func() bool {
			var keep []c09Clause
			for _, cl := range st.preds[op.Pred] {
				if !c09Match(cl, op.K) || (op.Ground && cl.s != op.S) {
					keep = append(keep, cl)
				}
			}
			st.preds[op.Pred] = keep
			return true
		}, false
	case "abolish":
		if st.gone[op.Pred] {
			return fmt.Sprintf("assertz(%s)", c.text(op.Pred)), func() bool {
				st.assert(op.Pred, false, op.K, op.S, op.Rule)
				return true
			}, false
		}
		return fmt.Sprintf("abolish(d%d/2)", op.Pred), func() bool {
			st.preds[op.Pred] = nil
			st.gone[op.Pred] = true
			return true
		}, false
	case "bad-body":
		return fmt.Sprintf("assertz((d%d(%s, %s) :- %s))", op.Pred, op.K, op.S, c09BadBody(op.S)), nil, true
	case "static":
		return "assertz(atom_length(a, 1))", nil, true
	}
	kit.Bug("c09 update %q", op.Update)
	return "", nil, false
}

// ---- in-query layer ----

type c09Event struct {
	text string
	db   string
}

func c09ExecInQuery(r *kit.Run, sc *c09Scenario, st *c09Store) {
	gen := sc.Gen
	// query text
	goals := []string{c09Goal(gen.Kind, gen.Pred, gen.K), "note(g(" + map[bool]string{true: "K", false: gen.K}[gen.K == "_"] + ", S))"}
	for j, a := range sc.Acts {
		k := a.K
		if k == "K" && gen.K != "_" {
			k = gen.K
		}
		c := c09Clause{k: k, s: a.S, rule: a.Rule}
		var t string
		switch a.Act {
		case "asserta", "assertz":
			t = fmt.Sprintf("%s(%s)", a.Act, c.text(a.Pred))
			if a.Late > 0 {
				c.k = fmt.Sprintf("L%d", j)
				t = fmt.Sprintf("%s(%s), L%d = %d", a.Act, c.text(a.Pred), j, a.Late)
			}
		case "retract":
			t = fmt.Sprintf("retract(d%d(%s, _))", a.Pred, k)
		case "once-retract":
			t = fmt.Sprintf("once(retract(d%d(%s, _)))", a.Pred, k)
		case "retractall":
			t = fmt.Sprintf("retractall(d%d(%s, _))", a.Pred, k)
			if a.Ground {
				t = fmt.Sprintf("retractall(d%d(%s, %s))", a.Pred, k, a.S)
			}
		case "abolish":
			t = fmt.Sprintf("abolish(d%d/2)", a.Pred) // (no catch/3 here: this check must not depend on C04)
		case "bad":
			t = fmt.Sprintf("assertz((d%d(1, %s) :- %s))", a.Pred, a.S, c09BadBody(a.S))
		}
		goals = append(goals, t, fmt.Sprintf("note(a(%d))", j))
	}
	sc.Query = "( " + strings.Join(goals, ", ") + ", fail ; true )"

	// model interpretation: events with the database after each
	var events []c09Event
	ambiguous := -1 // index of the first event that is not modelled (see below)
	ghosts := 0
	aborted := ""
	type binding struct{ k string }
	var solve func(i int, b binding) bool // returns false to abort (error raised)
	retractGen := func(pred int, kpat string, kind string, each func(c c09Clause) bool) bool {
		snap := append([]c09Clause(nil), st.preds[pred]...)
		for _, c := range snap {
			if !c09Match(c, kpat) || (kind == "retract" && !c.headOnly()) {
				continue
			}
			if !st.live(pred, c.uid) {
				ghosts++ // still a match of the snapshot: the step is taken, nothing is removed
			}
			st.remove(pred, c.uid)
			if !each(c) {
				return false
			}
		}
		return true
	}
	actK := func(a c09Act, b binding) string {
		if a.K == "K" {
			if gen.K != "_" {
				return gen.K
			}
			return b.k
		}
		return a.K
	}
	solve = func(i int, b binding) bool {
		if i == len(sc.Acts) {
			return true // fail: backtrack
		}
		a := sc.Acts[i]
		k := actK(a, b)
		note := func() bool {
			events = append(events, c09Event{fmt.Sprintf("a(%d)", i), st.dump()})
			return solve(i+1, b)
		}
		switch a.Act {
		case "asserta", "assertz":
			st.assert(a.Pred, a.Act == "asserta", k, a.S, a.Rule)
			return note()
		case "retract":
			if st.gone[a.Pred] {
				return true
			}
			return retractGen(a.Pred, k, "retract", func(c09Clause) bool { return note() })
		case "once-retract":
			for _, c := range st.preds[a.Pred] {
				if c09Match(c, k) && c.headOnly() {
					st.remove(a.Pred, c.uid)
					return note()
				}
			}
			return true
		case "retractall":
			if st.gone[a.Pred] {
				return note()
			}
			var keep []c09Clause
			for _, c := range st.preds[a.Pred] {
				if !c09Match(c, k) || (a.Ground && c.s != a.S) {
					keep = append(keep, c)
				}
			}
			st.preds[a.Pred] = keep
			return note()
		case "abolish":
			if st.gone[a.Pred] {
				aborted = "error(" // abolishing a procedure that does not exist raises (which error is not asserted)
				return false
			}
			st.preds[a.Pred] = nil
			st.gone[a.Pred] = true
			return note()
		case "bad":
			aborted = "error(type_error(callable"
			return false
		}
		return true
	}
	genNote := func(c c09Clause) bool {
		k := c.k
		if gen.K != "_" {
			k = gen.K
		}
		kt := k
		if kt == "_" {
			kt = "_A"
		}
		events = append(events, c09Event{fmt.Sprintf("g(%s,%s)", kt, c.s), st.dump()})
		return solve(0, binding{k: k})
	}
	initial := st.clone()
	_ = initial
	existenceOK := false
	switch gen.Kind {
	case "call", "clause":
		if st.gone[gen.Pred] {
			existenceOK = true
		}
		snap := append([]c09Clause(nil), st.preds[gen.Pred]...)
		for _, c := range snap {
			if c09Match(c, gen.K) {
				if !genNote(c) {
					break
				}
			}
		}
	default:
		retractGen(gen.Pred, gen.K, gen.Kind, genNote)
	}
	finalDB := st.dump()
	for _, a := range sc.Acts {
		if a.K == "K" && gen.K == "_" {
			// a clause with a variable first argument binds nothing: the act would assert / match a variable
			for _, e := range events {
				if strings.HasPrefix(e.text, "g(_A") {
					ambiguous = 0 // keep it simple: not modelled
				}
			}
		}
	}

	// real execution
	var got []string
	ctx := kit.NewSimCtx(sc.Cancel, context.Canceled)
	var err error
	var db string
	leftover, other := kit.Bubble(r.T, func() {
		interp := prolog.New(strings.NewReader(""), io.Discard)
		interp.Register1(engine.NewAtom("note"), func(_ *engine.VM, t engine.Term, k engine.Cont, env *engine.Env) *engine.Promise {
			got = append(got, kit.CanonTerm(t, env, kit.NewRenamer()))
			return k(env)
		})
		c09Load(interp, sc)
		sol := interp.QuerySolutionContext(ctx, sc.Query+".")
		err = sol.Err()
		kit.Settle()
		db = c09Dump(interp)
	})
	if other != nil {
		kit.Bug("c09 in-query harness panic: %v", other)
	}
	if leftover {
		r.Fail("leak", "search-goroutine-alive", "a search goroutine was left behind by the in-query loop")
	}
	r.Steps(ctx.Polls())
	r.Logf("query %s\n  -> err=%s events=%v\n  db: %s", sc.Query, kit.CanonErr(err), got, db)
	b, _ := json.Marshal(sc)
	r.Out.ScenarioKey = string(b)
	self := false
	for _, a := range sc.Acts {
		if a.Pred == gen.Pred {
			self = true
		}
	}
	r.Out.NonTrivial = self && len(events) >= 2

	limit := len(events)
	if ghosts > 0 {
		r.Probe("in-query-retract-reached-a-clause-removed-meanwhile")
	}
	if ambiguous >= 0 {
		limit = ambiguous
	}
	cancelled := err != nil && errors.Is(err, context.Canceled)
	if cancelled {
		r.Fault("cancel-mid-loop")
	}
	// events: observed must equal the model's (up to the ambiguity point; a cancelled run reports a prefix)
	for i, e := range got {
		if i >= limit {
			break
		}
		if i >= len(events) || events[i].text != e {
			want := "<end>"
			if i < len(events) {
				want = events[i].text
			}
			r.Fail("answer-mismatch", "in-query-step-differs:"+gen.Kind, "step %d of the loop reported %s, the model expects %s\n  query: %s\n  initial: %v\n  observed steps: %v", i, e, want, sc.Query, sc.Initial, got)
			return
		}
	}
	if ambiguous >= 0 {
		return
	}
	switch {
	case cancelled:
		n := len(got)
		ok := false
		states := []string{}
		if n == 0 {
			states = append(states, initialDump(sc))
		} else if n <= len(events) {
			states = append(states, events[n-1].db)
		}
		if n < len(events) {
			states = append(states, events[n].db)
		} else {
			states = append(states, finalDB)
		}
		// a retract generator removes before it reports
		for _, s := range states {
			if s == db {
				ok = true
			}
		}
		if !ok && n >= 1 && n < len(events) && strings.HasPrefix(events[n].text, "a(") {
			// retractall/1 removes its matches one by one: a cancel may land in the middle of it
			var j int
			fmt.Sscanf(events[n].text, "a(%d)", &j)
			if sc.Acts[j].Act == "retractall" {
				ok = c09Between(events[n-1].db, db, events[n].db)
				r.Probe("cancel-inside-retractall")
			}
		}
		if !ok {
			r.Fail("db-mismatch", "db-after-cancel:"+gen.Kind, "the loop was cancelled after %d reported steps; database\n  %s\nis neither of the model's states %v\n  query: %s", n, db, states, sc.Query)
		}
		return
	case err != nil && !errors.Is(err, prolog.ErrNoSolutions):
		ce := kit.CanonErr(err)
		if aborted != "" && strings.HasPrefix(ce, aborted) {
			break
		}
		if existenceOK && strings.HasPrefix(ce, "error(existence_error(procedure") {
			return
		}
		class := "update-error"
		if strings.Contains(err.Error(), "panic") {
			class = "panic-residue"
		}
		r.Fail(class, "in-query-raised:"+gen.Kind, "the loop raised %s\n  query: %s\n  initial: %v\n  steps: %v", ce, sc.Query, sc.Initial, got)
		return
	case aborted != "":
		r.Fail("update-error", "invalid-update-accepted:in-query", "the loop contains an invalid assertz but did not raise\n  query: %s", sc.Query)
		return
	}
	if len(got) != len(events) {
		r.Fail("answer-mismatch", "in-query-step-count:"+gen.Kind, "the loop reported %d steps %v, the model expects %d\n  query: %s\n  initial: %v", len(got), got, len(events), sc.Query, sc.Initial)
		return
	}
	if db != finalDB {
		r.Fail("db-mismatch", "db-after-loop:"+gen.Kind, "after the loop the database is\n  %s\nthe model has\n  %s\n  query: %s\n  initial: %v", db, finalDB, sc.Query, sc.Initial)
	}
}

func initialDump(sc *c09Scenario) string {
	st := &c09Store{}
	for _, t := range sc.Initial {
		var p int
		var rest string
		if i := strings.Index(t, " :- "); i > 0 {
			t = t[:i]
		}
		t = strings.TrimPrefix(t, "(")
		fmt.Sscanf(t, "d%d", &p)
		rest = t[strings.IndexByte(t, '(')+1 : strings.LastIndexByte(t, ')')]
		f := strings.SplitN(rest, ", ", 2)
		if f[0] == "Sh" {
			f[0] = "_" // the variable a rule shares with its body
		}
		st.assert(p, false, f[0], f[1], false)
	}
	return st.dump()
}

// c09Between reports whether every predicate's clause list in db lies between after and before as subsequences
// (before >= db >= after), which is what a partly executed retractall/1 leaves.
func c09Between(before, db, after string) bool {
	parse := func(s string) [][]string {
		var out [][]string
		for _, f := range strings.Fields(s) {
			l := f[strings.IndexByte(f, '[')+1 : len(f)-1]
			if l == "" {
				out = append(out, nil)
			} else {
				out = append(out, strings.Split(l, ","))
			}
		}
		return out
	}
	sub := func(a, b []string) bool { // a is a subsequence of b
		i := 0
		for _, x := range b {
			if i < len(a) && a[i] == x {
				i++
			}
		}
		return i == len(a)
	}
	b, d, a := parse(before), parse(db), parse(after)
	if len(b) != len(d) || len(a) != len(d) {
		return false
	}
	for i := range d {
		if !sub(a[i], d[i]) || !sub(d[i], b[i]) {
			return false
		}
	}
	return true
}

// c09Where strips run specific detail (cursor numbers, goal texts) from a location for use in a signature.
func c09Where(s string) string {
	var out []string
	for _, w := range strings.Fields(s) {
		if strings.ContainsAny(w, "0123456789") {
			continue
		}
		out = append(out, strings.Trim(w, "()"))
	}
	return strings.Join(out, "-")
}

// ---- multi-clause asserts ----
// asserta/assertz of a rule whose body is a top-level disjunction stores several clauses at once; they must go to the
// front / the end as a block, in the order of the disjuncts. Observed through calls only (what clause/2 shows for such
// rules is C10's subject).
func c09ExecDisj(r *kit.Run, sc *c09Scenario) {
	// inside a bubble so that every search goroutine of this run has finished before the next run installs its scheduler
	leftover, other := kit.Bubble(r.T, func() {
		c09ExecDisjBody(r, sc)
		kit.Settle()
	})
	if other != nil {
		kit.Bug("c09 disj harness panic: %v", other)
	}
	if leftover {
		r.Fail("leak", "search-goroutine-alive", "a search goroutine was left behind")
	}
}

func c09ExecDisjBody(r *kit.Run, sc *c09Scenario) {
	g := r.Tape.Lane("gen")
	interp := prolog.New(strings.NewReader(""), io.Discard)
	if err := interp.Exec(":- dynamic(e/1)."); err != nil {
		kit.Bug("c09 disj: %v", err)
	}
	var model []string // answers of e(X) in order
	type cur struct {
		sols     *prolog.Solutions
		snapshot []string
		started  bool
		pos      int
	}
	var curs []*cur
	defer func() {
		for _, c := range curs {
			c.sols.Close()
		}
	}()
	stamp := 0
	var texts []string
	n := 2 + g.Choose(14)
	multi := false
	for i := 0; i < n && !r.Failed(); i++ {
		switch g.Weighted(6, 3, 2, 4) {
		case 0: // assert
			front := g.Choose(2) == 0
			k := 1 + g.Weighted(3, 3, 2)
			var alts, xs []string
			for j := 0; j < k; j++ {
				stamp++
				xs = append(xs, fmt.Sprintf("s%d", stamp))
				alts = append(alts, fmt.Sprintf("X = s%d", stamp))
			}
			clause := "e(" + xs[0] + ")"
			if k > 1 {
				clause = "(e(X) :- (" + strings.Join(alts, " ; ") + "))"
				multi = true
			}
			goal := map[bool]string{true: "asserta", false: "assertz"}[front] + "(" + clause + ")"
			texts = append(texts, goal)
			if err := interp.QuerySolution(goal + ".").Err(); err != nil {
				r.Fail("update-error", "update-raised:assert-disjunction", "%s raised %s", goal, kit.CanonErr(err))
				return
			}
			if front {
				model = append(append([]string(nil), xs...), model...)
			} else {
				model = append(model, xs...)
			}
		case 1: // open a call
			if len(curs) < 3 {
				sols, err := interp.Query("e(X).")
				if err != nil {
					kit.Bug("c09 disj query: %v", err)
				}
				curs = append(curs, &cur{sols: sols})
				texts = append(texts, "open e(X)")
			}
			continue
		case 2: // close one
			if len(curs) > 0 {
				k := g.Choose(len(curs))
				curs[k].sols.Close()
				curs = append(curs[:k], curs[k+1:]...)
				r.Fault("close-open-cursor")
			}
			continue
		default: // step one
			if len(curs) == 0 {
				continue
			}
			c := curs[g.Choose(len(curs))]
			if !c.started {
				c.started, c.snapshot = true, append([]string(nil), model...)
			}
			got := "<end>"
			if c.sols.Next() {
				v := kit.NewVars()
				c.sols.Scan(v)
				got = v.Get("X")
			}
			want := "<end>"
			if c.pos < len(c.snapshot) {
				want = c.snapshot[c.pos]
				c.pos++
			}
			texts = append(texts, "step -> "+got)
			if got != want {
				r.Fail("answer-mismatch", "cursor-answer:call:multi-clause-assert", "an open call of e(X) answered %s; by its call-time snapshot %v the next answer is %s (history: %s)", got, c.snapshot, want, strings.Join(texts, ", "))
				return
			}
			if multi {
				r.Out.NonTrivial = true
			}
			continue
		}
		// after every update: the answers of e(X) are the model's
		sols, err := interp.Query("e(X).")
		if err != nil {
			kit.Bug("c09 disj: %v", err)
		}
		var got []string
		for sols.Next() {
			v := kit.NewVars()
			sols.Scan(v)
			got = append(got, v.Get("X"))
		}
		sols.Close()
		if !kit.SameList(got, model) {
			r.Fail("db-mismatch", "db-differs:multi-clause-assert", "after %s a call of e(X) answers %v; front/end insertion of whole clauses gives %v (history: %s)", texts[len(texts)-1], got, model, strings.Join(texts, ", "))
			return
		}
	}
	sc.Query = strings.Join(texts, ", ")
	b, _ := json.Marshal(sc)
	r.Out.ScenarioKey = string(b)
}

// c09BadBody is a body that is not callable: a number alone, or a number as the last / a middle alternative of a disjunction
// whose other alternatives are fine (nothing of such a clause may be stored). Chosen by the stamp, no draw from the tape.
func c09BadBody(stamp string) string {
	n := 0
	for _, ch := range stamp {
		n += int(ch)
	}
	return []string{"1", "true ; 1", "atom(a) ; 2 ; true", "(true, 3)"}[n%4]
}

// c09ExecZero: a predicate without arguments and with duplicate facts (its clauses cannot be told apart by what they
// answer, only by how many there are). One retract/1 enumeration is open while single retracts and assertz calls go by;
// a step of the enumeration removes the clause of its call-time snapshot that it has reached if that clause is still
// there, and nothing otherwise - in particular never a clause asserted after the enumeration was opened. Whether a step
// that reaches a clause somebody else has removed answers or moves on is left open, so the count is compared only when
// no such step can have happened yet, and at the end (where both readings agree).
func c09ExecZero(r *kit.Run, sc *c09Scenario) {
	g := r.Tape.Lane("gen")
	interp := prolog.New(strings.NewReader(""), io.Discard)
	if err := interp.Exec(":- dynamic(z0/0).\n"); err != nil {
		kit.Bug("c09 zero: %v", err)
	}
	n := 1 + g.Choose(4)
	var db []int // ids of the clauses in the database, in order
	nextID := 0
	add := func() {
		if err := interp.QuerySolution("assertz(z0).").Err(); err != nil {
			kit.Bug("c09 zero assertz: %v", err)
		}
		nextID++
		db = append(db, nextID)
	}
	for i := 0; i < n; i++ {
		add()
	}
	count := func() int {
		sol := interp.QuerySolution("findall(x, z0, L), length(L, N).")
		v := kit.NewVars()
		if err := sol.Scan(v); err != nil {
			kit.Bug("c09 zero count: %v", err)
		}
		c := 0
		fmt.Sscanf(v.Get("N"), "%d", &c)
		return c
	}
	sols, err := interp.Query("retract(z0).")
	if err != nil {
		kit.Bug("c09 zero: %v", err)
	}
	defer sols.Close()
	var snapshot []int
	started, pos, ghost, done, murky := false, 0, false, false, false
	var hist []string
	remove := func(id int) bool {
		for i, x := range db {
			if x == id {
				db = append(db[:i:i], db[i+1:]...)
				return true
			}
		}
		return false
	}
	nOps := 2 + g.Choose(8)
	for i := 0; i <= nOps && !r.Failed(); i++ {
		op := g.Weighted(5, 3, 3)
		if i == nOps {
			op = 3 // run the enumeration to its end
		}
		switch op {
		case 0, 3:
			for !done {
				if !started {
					started, snapshot = true, append([]int(nil), db...)
				}
				ok := sols.Next()
				hist = append(hist, fmt.Sprintf("step->%v", ok))
				if !ok {
					done = true
					if err := sols.Err(); err != nil {
						r.Fail("answer-mismatch", "zero-arity:enumeration-raised", "the open retract(z0) raised %s (history %v)", kit.CanonErr(err), hist)
						return
					}
					break
				}
				// the model: the next snapshot clause; gone already = nothing is removed by this step (if the implementation
				// moves on instead of answering, it has removed the next live one: the count is ambiguous from here on)
				for pos < len(snapshot) {
					id := snapshot[pos]
					pos++
					if remove(id) {
						break
					}
					ghost = true
					break
				}
				if op == 0 {
					break
				}
			}

		case 1:
			ok := interp.QuerySolution("retract(z0).").Err() == nil
			hist = append(hist, fmt.Sprintf("retract->%v", ok))
			if ghost {
				murky = true // which clause is the first one now depends on the reading: the final count is not asserted either
			}
			if ok != (len(db) > 0) {
				r.Fail("answer-mismatch", "zero-arity:single-retract", "retract(z0) succeeded: %v with %d clauses in the database (history %v)", ok, len(db), hist)
				return
			}
			if len(db) > 0 {
				db = db[1:]
			}
		case 2:
			add()
			hist = append(hist, "assertz")
		}
		_ = murky
		{
			if got := count(); got != len(db) {
				r.Fail("db-mismatch", "zero-arity:clause-count", "z0/0 has %d clauses, the model %d (initially %d duplicates, one retract(z0) enumeration open; history %v)", got, len(db), n, hist)
				return
			}
		}
	}
	r.Logf("zero-arity layer: %d initial, history %v, final %d", n, hist, len(db))
	r.Out.NonTrivial = ghost
	r.Out.ScenarioKey = fmt.Sprintf("zero|%d|%v", n, hist)
}
