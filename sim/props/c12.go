package props

import (
	"context"
	"encoding/json"
	"errors"
	"fmt"
	"io"
	"strings"

	"verif/sim/kit"

	"github.com/ichiban/prolog"
	"github.com/ichiban/prolog/engine"
)

// ---------------------------------------------------------------------------
// C12 — the Solutions iterator never blocks, counts answers exactly, stops on Close
// ---------------------------------------------------------------------------

type c12 struct{}

func init() { Register(c12{}) }

func (c12) ID() string { return "C12" }

func (c12) Meta() kit.Meta {
	return kit.Meta{
		Level: "exploration",
		Rule: "a case = (1..2 queries drawn from 11 kinds with 0..4 answers / error after j answers / infinite, an operation list over {Next,Scan,Err,Close,Cancel} x queries of length <= 10 followed by a clean-up Close, a schedule policy, the released-goroutine sequence). " +
			"distinct = distinct hash of (decoded scenario, released (goroutine,point) sequence). non-trivial = at least one Next returned true AND at least one call was made after exhaustion, error or Close of the same Solutions. " +
			"thorough additionally enumerates every operation sequence of length <= 6 over {Next,Scan,Err,Close} for one Solutions x every query kind x 8 schedule seeds (schedules sampled, sequences complete).",
		Assumptions: []string{
			"the 14 simYield call sites (build tag verif) bracket every channel operation of the query hand-off; code between two yields is not interleaved by this scheduler",
			"quiescence and leaked goroutines are detected by go1.26.8 testing/synctest (Wait, end-of-bubble deadlock panic)",
			"iterator model: answers in order, false ever after, first Close nil then ErrClosed; Scan content is asserted only directly after a true Next (and until the next Next/Close); Err is not asserted after Close",
		},
		Real: []string{"prolog.Interpreter.QueryContext", "prolog.Solutions.Next/Scan/Err/Close", "the per-query search goroutine and both channels", "engine.VM, trampoline, built-ins, bootstrap.pl"},
		Stub: []string{"goroutine scheduling (cooperative scheduler at hook points)", "context (SimCtx)", "user_output (discarded)"},
	}
}

func (c12) Phases() []kit.Phase {
	return []kit.Phase{
		{Name: "sampled", Count: func(tier string) uint64 {
			if tier == "thorough" {
				return 400000
			}
			return 14000
		}},
		{Name: "enum-seq6", Exhaustive: true,
			Space: "all sequences of length 1..6 over {Next,Scan,Err,Close} on one Solutions x 15 query shapes x 8 schedule seeds",
			Count: func(tier string) uint64 {
				if tier == "thorough" {
					return uint64(c12EnumCount()) * 8
				}
				return 0
			},
			Tape: func(base, i uint64) *kit.Tape {
				t := kit.NewTape(kit.RunSeed(base, "C12/enum", i))
				sc := c12EnumScenario(int(i / 8))
				sc.Policy = int(i % 4)
				b, _ := json.Marshal(sc)
				t.Fixed = b
				return t
			}},
	}
}

// ---- scenario ----

type c12Query struct {
	Kind   string `json:"kind"`
	K      int    `json:"k"`
	Text   string `json:"text"`
	FireAt int    `json:"cancel_at_poll,omitempty"` // the query's context is cancelled at this trampoline poll, i.e. while a Next is pending
}

type c12Op struct {
	Sol int    `json:"sol"`
	Op  string `json:"op"` // Next Scan Err Close Cancel
}

type c12Scenario struct {
	Policy  int        `json:"policy"`
	Queries []c12Query `json:"queries"`
	Ops     []c12Op    `json:"ops"`
}

var c12Kinds = []string{"member", "between", "clauses", "det", "alt-tail", "error", "throw", "undefined", "findall", "repeat", "nat", "catch-all", "catch-err", "call", "once", "cut-only", "true-only", "cut-or", "repeat-plain", "builtin-gen"}

func c12Shapes() []c12Query {
	// the 12 shapes used by the enumeration phase
	return []c12Query{
		{Kind: "member", K: 0}, {Kind: "member", K: 1}, {Kind: "member", K: 3}, {Kind: "between", K: 2},
		{Kind: "clauses", K: 2}, {Kind: "det", K: 1}, {Kind: "alt-tail", K: 1}, {Kind: "error", K: 0},
		{Kind: "error", K: 2}, {Kind: "throw", K: 1}, {Kind: "repeat"}, {Kind: "nat"},
		{Kind: "catch-all", K: 2}, {Kind: "catch-err", K: 1}, {Kind: "cut-only"},
	}
}

var c12OpNames = []string{"Next", "Scan", "Err", "Close"}

func c12EnumCount() int {
	n := 0
	p := 1
	for l := 1; l <= 6; l++ {
		p *= 4
		n += p
	}
	return n * len(c12Shapes())
}

func c12EnumScenario(i int) c12Scenario {
	shapes := c12Shapes()
	q := shapes[i%len(shapes)]
	i /= len(shapes)
	// i indexes sequences of length 1..6 over 4 symbols
	l, p := 1, 4
	for i >= p {
		i -= p
		l++
		p *= 4
	}
	ops := make([]c12Op, l)
	for j := 0; j < l; j++ {
		ops[j] = c12Op{Sol: 0, Op: c12OpNames[i%4]}
		i /= 4
	}
	return c12Scenario{Queries: []c12Query{q}, Ops: ops}
}

func c12Gen(g *kit.Lane, tier string) c12Scenario {
	var sc c12Scenario
	sc.Policy = g.Choose(kit.NumPolicies)
	nq := 1 + g.Weighted(3, 2)
	for i := 0; i < nq; i++ {
		q := c12Query{Kind: c12Kinds[g.Choose(len(c12Kinds))]}
		q.K = g.Choose(5)
		if q.Kind == "builtin-gen" {
			q.K = g.Choose(10) // generator K%5, followed by a goal of the host iff K >= 5
		}
		if g.Choose(4) == 0 {
			q.FireAt = 1 + g.Choose(40)
		}
		sc.Queries = append(sc.Queries, q)
	}
	n := 1 + g.Choose(10)
	for i := 0; i < n; i++ {
		op := c12Op{Sol: g.Choose(nq)}
		op.Op = []string{"Next", "Scan", "Err", "Close", "Cancel", "ScanBad"}[g.Weighted(10, 3, 3, 3, 1, 1)]
		sc.Ops = append(sc.Ops, op)
	}
	return sc
}

// ---- query scripts: what a query does, item by item ----

type c12Item struct {
	kind byte   // 't' tick, 'a' answer, 'e' end, 'x' error, 'h' runs for ever without an answer (only with a context that fires)
	s    string // tick label / answer text / canonical error
}

func list1(k int) string {
	var xs []string
	for i := 1; i <= k; i++ {
		xs = append(xs, fmt.Sprint(i))
	}
	return strings.Join(xs, ",")
}

// c12Build returns the query text and its script (lazy for infinite queries).
func c12Build(q c12Query, id string) (text string, at func(i int) c12Item) {
	fin := func(items []c12Item) func(int) c12Item {
		return func(i int) c12Item {
			if i < len(items) {
				return items[i]
			}
			return items[len(items)-1]
		}
	}
	k := q.K
	T := func(s string) c12Item { return c12Item{'t', s} }
	A := func(s string) c12Item { return c12Item{'a', s} }
	end := c12Item{'e', ""}
	var items []c12Item
	switch q.Kind {
	case "member", "between", "clauses":
		switch q.Kind {
		case "member":
			text = fmt.Sprintf("tick(%s, s), member(X, [%s]), tick(%s, a(X))", id, list1(k), id)
		case "between":
			text = fmt.Sprintf("tick(%s, s), between(1, %d, X), tick(%s, a(X))", id, k, id)
		default:
			text = fmt.Sprintf("tick(%s, s), c%d(X), tick(%s, a(X))", id, k, id)
		}
		items = append(items, T("s"))
		for i := 1; i <= k; i++ {
			items = append(items, T(fmt.Sprintf("a(%d)", i)), A(fmt.Sprintf("X=%d", i)))
		}
		items = append(items, end)
	case "det":
		text = fmt.Sprintf("tick(%s, s), X = %d", id, k)
		items = []c12Item{T("s"), A(fmt.Sprintf("X=%d", k)), end}
	case "alt-tail":
		text = fmt.Sprintf("( member(X, [%s]), tick(%s, a(X)) ; tick(%s, e), fail )", list1(k), id, id)
		for i := 1; i <= k; i++ {
			items = append(items, T(fmt.Sprintf("a(%d)", i)), A(fmt.Sprintf("X=%d", i)))
		}
		items = append(items, T("e"), end)
	case "error":
		l := list1(k)
		if l != "" {
			l += ","
		}
		text = fmt.Sprintf("tick(%s, s), member(X, [%sfoo]), tick(%s, a(X)), Y is X + 0", id, l, id)
		items = append(items, T("s"))
		for i := 1; i <= k; i++ {
			items = append(items, T(fmt.Sprintf("a(%d)", i)), A(fmt.Sprintf("X=%d Y=%d", i, i)))
		}
		items = append(items, T("a(foo)"), c12Item{'x', "error(type_error(evaluable,/(foo,0)),_)"})
	case "throw":
		text = fmt.Sprintf("( member(X, [%s]), tick(%s, a(X)) ; tick(%s, t), throw(ball(%s)) )", list1(k), id, id, id)
		for i := 1; i <= k; i++ {
			items = append(items, T(fmt.Sprintf("a(%d)", i)), A(fmt.Sprintf("X=%d", i)))
		}
		items = append(items, T("t"), c12Item{'x', "ball(ball(" + id + "))"})
	case "undefined":
		text = fmt.Sprintf("( member(X, [%s]), tick(%s, a(X)) ; undefined_pred_xyz )", list1(k), id)
		for i := 1; i <= k; i++ {
			items = append(items, T(fmt.Sprintf("a(%d)", i)), A(fmt.Sprintf("X=%d", i)))
		}
		items = append(items, c12Item{'x', "error(existence_error(procedure,/(undefined_pred_xyz,0)),_)"})
	case "findall":
		text = fmt.Sprintf("findall(Y, (member(Y, [%s]), tick(%s, f(Y))), L), member(X, L), tick(%s, a(X))", list1(k), id, id)
		for i := 1; i <= k; i++ {
			items = append(items, T(fmt.Sprintf("f(%d)", i)))
		}
		for i := 1; i <= k; i++ {
			items = append(items, T(fmt.Sprintf("a(%d)", i)), A(fmt.Sprintf("L=[%s] X=%d Y=_A", list1(k), i)))
		}
		items = append(items, end)
	case "catch-all":
		// a catch/3 that would catch anything stays on the stack while answers are handed over
		text = fmt.Sprintf("catch((tick(%s, s), member(X, [%s]), tick(%s, a(X))), _, tick(%s, rec))", id, list1(k), id, id)
		items = append(items, T("s"))
		for i := 1; i <= k; i++ {
			items = append(items, T(fmt.Sprintf("a(%d)", i)), A(fmt.Sprintf("X=%d", i)))
		}
		items = append(items, end)
	case "catch-err":
		l := list1(k)
		if l != "" {
			l += ","
		}
		text = fmt.Sprintf("catch((member(X, [%sfoo]), tick(%s, a(X)), Y is X + 0), error(type_error(_, _), _), (tick(%s, rec), Y = caught))", l, id, id)
		for i := 1; i <= k; i++ {
			items = append(items, T(fmt.Sprintf("a(%d)", i)), A(fmt.Sprintf("X=%d Y=%d", i, i)))
		}
		items = append(items, T("a(foo)"), T("rec"), A("X=_A Y=caught"), end)
	case "call":
		text = fmt.Sprintf("call((tick(%s, s), member(X, [%s]), tick(%s, a(X))))", id, list1(k), id)
		items = append(items, T("s"))
		for i := 1; i <= k; i++ {
			items = append(items, T(fmt.Sprintf("a(%d)", i)), A(fmt.Sprintf("X=%d", i)))
		}
		items = append(items, end)
	case "once":
		text = fmt.Sprintf("once((member(X, [%s]), tick(%s, a(X))))", list1(k), id)
		if k >= 1 {
			items = append(items, T("a(1)"), A("X=1"))
		}
		items = append(items, end)
	case "cut-only", "true-only", "cut-or":
		// queries made of control constructs only: one answer that binds nothing, no predicate is called
		text = map[string]string{"cut-only": "!", "true-only": "true", "cut-or": "(! ; true)"}[q.Kind]
		if k >= 3 {
			text = text + ", " + text
		}
		items = []c12Item{A(""), end}
	case "repeat":
		text = fmt.Sprintf("repeat, tick(%s, r)", id)
		return text, func(i int) c12Item {
			if i%2 == 0 {
				return T("r")
			}
			return A("")
		}
	case "builtin-gen":
		// a nondeterministic built-in written in Go as the generator, followed by nothing or by a goal of the host: every
		// answer is handed over before the next alternative is tried
		type bg struct {
			text string
			ans  []string
		}
		gens := []bg{
			{"nth0(N, [a, b, c], X)", []string{"N=0 X=a", "N=1 X=b", "N=2 X=c"}},
			{"nth1(N, [a, b], X)", []string{"N=1 X=a", "N=2 X=b"}},
			{"atom_concat(X, Y, ab)", []string{"X='' Y=ab", "X=a Y=b", "X=ab Y=''"}},
			{"sub_atom(abc, B, 2, A, X)", []string{"A=1 B=0 X=ab", "A=0 B=1 X=bc"}},
			{"append(X, Y, [a, b])", []string{"X=[] Y=[a,b]", "X=[a] Y=[b]", "X=[a,b] Y=[]"}},
		}
		b := gens[k%len(gens)]
		text = b.text
		withTick := k >= 5
		if withTick {
			text += fmt.Sprintf(", tick(%s, g)", id)
		}
		for _, a := range b.ans {
			if withTick {
				items = append(items, T("g"))
			}
			items = append(items, A(a))
		}
		items = append(items, end)
	case "repeat-plain":
		// nothing between repeat/0 and the hand-off to the consumer (or only a unification): answers without end, and a
		// loop in which no predicate of the host is ever called
		text = "repeat"
		ans := ""
		if k >= 3 {
			text, ans = "repeat, X = 1", "X=1"
		}
		if k == 4 && q.FireAt > 0 {
			// never an answer, never an end: the pending Next returns only because its context is cancelled at poll FireAt
			return "repeat, X = a, X = b", func(int) c12Item { return c12Item{'h', ""} }
		}
		return text, func(int) c12Item { return A(ans) }
	case "nat":
		text = fmt.Sprintf("between(1, 100000000, X), tick(%s, a(X))", id)
		return text, func(i int) c12Item {
			n := i/2 + 1
			if i%2 == 0 {
				return T(fmt.Sprintf("a(%d)", n))
			}
			return A(fmt.Sprintf("X=%d", n))
		}
	default:
		kit.Bug("c12: unknown query kind %s", q.Kind)
	}
	return text, fin(items)
}

const c12Program = `
:- dynamic(c0/1).
c1(1).
c2(1). c2(2).
c3(1). c3(2). c3(3).
c4(1). c4(2). c4(3). c4(4).
`

// iterator model
type c12Model struct {
	at           func(int) c12Item
	pos          int
	closed       bool
	ended        bool
	endErr       string // canonical error expected from Err after the terminating false Next ("nil" if none)
	cancelled    bool
	frozen       *[]string // side effects observed when the query was closed; nothing may be added later
	last         string    // answer text of the most recent true Next (it stays that after the end and after Close), "?" before the first one: not asserted
	ticks        []string
	trueNexts    int
	afterEnd     int // calls made after exhaustion/error/Close
	nextAfterEnd int
}

func (m *c12Model) state() string {
	switch {
	case m.closed:
		return "closed"
	case m.ended && m.endErr != "nil":
		return "errored"
	case m.ended:
		return "exhausted"
	case m.cancelled:
		return "cancelled"
	}
	return "open"
}

func (c12) Exec(r *kit.Run) {
	var sc c12Scenario
	if r.Tape.Fixed != nil {
		if err := json.Unmarshal(r.Tape.Fixed, &sc); err != nil {
			panic(err)
		}
	} else {
		sc = c12Gen(r.Tape.Lane("gen"), r.Tier)
	}
	nq := len(sc.Queries)
	ids := make([]string, nq)
	models := make([]*c12Model, nq)
	for i := range sc.Queries {
		ids[i] = fmt.Sprintf("q%d", i)
		var at func(int) c12Item
		sc.Queries[i].Text, at = c12Build(sc.Queries[i], ids[i])
		models[i] = &c12Model{at: at, last: "?", endErr: "nil"}
		if sc.Queries[i].FireAt > 0 {
			// the cancel will land inside some pending Next: from the start the model only demands what it demands of a
			// cancelled query (answers in order or an early stop with the context's error, side effects a prefix)
			models[i].cancelled = true
		}
	}
	r.Out.Scenario = sc

	ticks := make([][]string, nq) // observed, per query
	sched := kit.NewSched(r, sc.Policy)
	var curOp, curDetail string
	var status string
	finalErr := make([]string, nq) // Err() of healthy queries read after every goroutine has finished
	var allSols []*prolog.Solutions
	var allCtxs []*kit.SimCtx

	leftover, other := kit.Bubble(r.T, func() {
		interp := prolog.New(strings.NewReader(""), io.Discard)
		interp.Register2(engine.NewAtom("tick"), func(_ *engine.VM, q, label engine.Term, k engine.Cont, env *engine.Env) *engine.Promise {
			qs := kit.CanonTerm(q, env, kit.NewRenamer())
			for i, id := range ids {
				if id == qs {
					ticks[i] = append(ticks[i], kit.CanonTerm(label, env, kit.NewRenamer()))
				}
			}
			r.Logf("tick %s %s", qs, kit.CanonTerm(label, env, kit.NewRenamer()))
			return k(env)
		})
		if err := interp.Exec(c12Program); err != nil {
			kit.Bug("c12 program: %v", err)
		}
		prolog.SimYield = sched.Yield
		defer func() { prolog.SimYield = nil }()

		sched.Go(func() {
			sols := make([]*prolog.Solutions, nq)
			ctxs := make([]*kit.SimCtx, nq)
			allSols, allCtxs = sols, ctxs
			for i := range sc.Queries {
				ctxs[i] = kit.NewSimCtx(sc.Queries[i].FireAt, context.Canceled)

				s, err := interp.QueryContext(ctxs[i], sc.Queries[i].Text+".")
				if err != nil {
					kit.Bug("c12 query did not parse: %s: %v", sc.Queries[i].Text, err)
				}
				sols[i] = s
			}
			scriptTicks := func(i, n int) ([]string, bool) {
				// the first n ticks of query i's script (false if the script has fewer)
				var ts []string
				for p := 0; len(ts) < n; p++ {
					it := models[i].at(p)
					if it.kind == 't' {
						ts = append(ts, it.s)
					} else if it.kind != 'a' {
						return ts, false
					}
				}
				return ts, true
			}
			check := func(i int) bool {
				// observed side effects of query i against the model
				m := models[i]
				obs := ticks[i]
				if m.frozen != nil {
					if !kit.SameList(obs, *m.frozen) {
						r.Fail("ran-after-close", "goal-ran-after-Close", "query %d (%s): goals run %v, but only %v had run when it was closed", i, sc.Queries[i].Text, obs, *m.frozen)
						return false
					}
					return true
				}
				if m.cancelled {
					// a cancelled query may stop anywhere; only the prefix relation is required
					exp, ok := scriptTicks(i, len(obs))
					if !ok || !kit.SameList(obs, exp) {
						r.Fail("answer-mismatch", "side-effects-differ:cancelled", "query %d (%s): goals run %v are not a prefix of the model's %v", i, sc.Queries[i].Text, obs, exp)
						return false
					}
					return true
				}
				if !kit.SameList(obs, m.ticks) {
					r.Fail("answer-mismatch", "side-effects-differ:"+m.state(), "query %d (%s): goals run so far %v, model %v", i, sc.Queries[i].Text, obs, m.ticks)
					return false
				}
				return true
			}
			doOp := func(n int, op c12Op) {
				i := op.Sol
				m, s := models[i], sols[i]
				curOp = fmt.Sprintf("%s:%s", op.Op, m.state())
				curDetail = ""
				if m.closed || m.ended {
					m.afterEnd++
					if op.Op == "Next" {
						m.nextAfterEnd++
					}
					curDetail = fmt.Sprintf("call %d (Next call %d) after the query was %s", m.afterEnd, m.nextAfterEnd, m.state())
				}
				sched.UserYield(fmt.Sprintf("U:op%d", n))
				switch op.Op {
				case "Next":
					got := s.Next()
					r.Logf("op %d sol%d Next -> %v", n, i, got)
					want := false
					switch {
					case m.closed || m.ended:
						// (the most recent answer stays the most recent answer)
					case !m.cancelled:
						for {
							it := m.at(m.pos)
							if it.kind == 't' {
								m.ticks = append(m.ticks, it.s)
								m.pos++
								continue
							}
							if it.kind == 'a' {
								want = true
								m.last = it.s
								m.pos++
								m.trueNexts++
								break
							}
							m.ended = true
							if it.kind == 'x' {
								m.endErr = it.s
							}
							break
						}
					default: // cancelled while idle: the next call may still deliver the next answer, or stop
						p := m.pos
						for m.at(p).kind == 't' {
							p++
						}
						it := m.at(p)
						if got {
							if it.kind != 'a' {
								r.Fail("answer-mismatch", "Next=true:want=false:cancelled", "op %d: Next on cancelled query %d returned true but the script has no further answer", n, i)
								return
							}
							want, m.last, m.pos = true, it.s, p+1
							m.trueNexts++
						} else {
							m.ended = true
							m.endErr = "ctx"
							if it.kind == 'e' {
								m.endErr = "ctx|nil"
							} else if it.kind == 'x' {
								m.endErr = "ctx|" + it.s
							}
						}
					}
					if got != want {
						r.Fail("answer-mismatch", fmt.Sprintf("Next=%v:want=%v:%s", got, want, curOp), "op %d: Next on query %d (%s) returned %v, model says %v", n, i, sc.Queries[i].Text, got, want)
						return
					}
					check(i)
				case "ScanBad":
					// a destination the answer does not fit (or a struct without a field for it): whatever Scan says, the iterator
					// is what it was - its answers, its end and its error are those of the query, not of a conversion
					var bad struct {
						X chan int
						N chan int
					}
					err := s.Scan(&bad)
					r.Logf("op %d sol%d Scan into an unfit destination -> err=%v", n, i, err)
				case "Scan":
					v := kit.NewVars()
					err := s.Scan(v)
					r.Logf("op %d sol%d Scan -> %q err=%v", n, i, v.String(), err)
					if m.last != "?" {
						// (also after Close: the most recent answer stays the most recent answer, QuerySolution relies on it)
						if err != nil || v.String() != m.last {
							r.Fail("answer-mismatch", "Scan-differs", "op %d: Scan on query %d (%s) gave %q err=%v, model %q", n, i, sc.Queries[i].Text, v.String(), err, m.last)
						}
					}
				case "Err":
					err := s.Err()
					got := kit.CanonErr(err)
					if errors.Is(err, context.Canceled) || errors.Is(err, context.DeadlineExceeded) {
						got = "ctx"
					}
					r.Logf("op %d sol%d Err -> %s", n, i, got)
					if m.closed {
						// after Close: a query that had not ended, had not raised and was never cancelled has no terminating error,
						// now or later (other cases are not asserted: the search may or may not have noticed a cancel before Close)
						if !m.cancelled && !m.ended && got != "nil" {
							r.Fail("answer-mismatch", "Err-after-Close-of-healthy-query", "op %d: Err on query %d (%s), closed before its end without error or cancel, gave %s", n, i, sc.Queries[i].Text, got)
						}
						if m.ended {
							// a query that had ended before it was closed keeps its terminating error
							ok := false
							for _, w := range strings.Split(m.endErr, "|") {
								ok = ok || got == w
							}
							if !ok {
								r.Fail("answer-mismatch", "Err-differs:closed-after-the-end", "op %d: Err on query %d (%s), which had ended with %s before it was closed, gave %s", n, i, sc.Queries[i].Text, m.endErr, got)
							}
						}
						return
					}
					want := "nil"
					if m.ended {
						want = m.endErr
					} else if m.cancelled {
						want = "nil|ctx" // the search may already have noticed the cancellation
					}
					ok := false
					for _, w := range strings.Split(want, "|") {
						if got == w {
							ok = true
						}
					}
					if !ok {
						r.Fail("answer-mismatch", "Err-differs:"+m.state(), "op %d: Err on query %d (%s) gave %s, model %s", n, i, sc.Queries[i].Text, got, want)
					}
				case "Close":
					err := s.Close()
					r.Logf("op %d sol%d Close -> %v", n, i, err)
					if !m.closed {
						if err != nil {
							r.Fail("answer-mismatch", "first-Close-not-nil", "op %d: first Close on query %d returned %v", n, i, err)
						}
						if check(i) {
							f := append([]string(nil), ticks[i]...)
							m.frozen = &f
						}
						m.closed = true
					} else if !errors.Is(err, prolog.ErrClosed) {
						r.Fail("answer-mismatch", "repeated-Close-not-ErrClosed", "op %d: repeated Close on query %d returned %v", n, i, err)
					}
				case "Cancel":
					ctxs[i].Fire()
					r.Fault("cancel-between-calls")
					r.Logf("op %d sol%d Cancel", n, i)
					if !m.closed && !m.ended {
						m.cancelled = true
					}
				}
			}
			for n, op := range sc.Ops {
				if r.Failed() {
					break
				}
				doOp(n, op)
			}
			// clean-up: everything still open is closed
			for i, s := range sols {
				curOp = "cleanup-Close:" + models[i].state()
				sched.UserYield("U:cleanup")
				err := s.Close()
				if !models[i].closed {
					if err != nil {
						r.Fail("answer-mismatch", "first-Close-not-nil", "clean-up Close on query %d returned %v", i, err)
					}
					if check(i) {
						f := append([]string(nil), ticks[i]...)
						models[i].frozen = &f
					}
				}
				models[i].closed = true
			}
			for _, c := range ctxs {
				if c.FiredByPoll() {
					r.Fault("cancel-while-a-call-is-pending")
				}
			}
			curOp = "finished"
		})
		status = sched.Drive()
		if status == "cap" {
			sched.Stop()
		}
		if status == "done" {
			// every goroutine has finished: Err() is stable now. A query that was closed before its end, whose context was
			// never cancelled and which had not raised, has no terminating error.
			for i, m := range models {
				if allSols != nil && allSols[i] != nil && !allCtxs[i].Fired() && (!m.ended || m.endErr == "nil") {
					if err := allSols[i].Err(); err != nil {
						finalErr[i] = kit.CanonErr(err)
					}
				}
			}
		}
	})

	r.Steps(sched.StepCount)
	r.Out.Interleaving = sched.Hash()
	switch {
	case other != nil:
		kit.Bug("c12 harness panic: %v", other)
	case status == "blocked":
		r.Fail("blocked", "blocks:"+curOp, "a call never returned: %s %s (every goroutine is blocked, nothing left to schedule)", curOp, curDetail)
	case status == "cap":
		r.Out.Inconclusive = "cap"
	default:
		if alive := sched.Alive(); len(alive) > 0 || leftover {
			r.Fail("leak", "search-goroutine-alive-after-Close", "search goroutine(s) %v still alive after every Solutions was closed (leftover blocked goroutines in bubble: %v)", alive, leftover)
		}
		for i, m := range models {
			if finalErr[i] != "" {
				r.Fail("answer-mismatch", "Err-after-Close-of-healthy-query", "query %d (%s) was closed before its end, no error occurred and its context was not cancelled, yet Err() reports %s once the search goroutine has finished", i, sc.Queries[i].Text, finalErr[i])
			}
			if m.frozen != nil && !kit.SameList(ticks[i], *m.frozen) {
				r.Fail("ran-after-close", "goal-ran-after-Close", "query %d (%s): goals run in total %v, but only %v had run when it was closed", i, sc.Queries[i].Text, ticks[i], *m.frozen)
			}
		}
	}
	// non-triviality and scenario key
	for _, m := range models {
		if m.trueNexts > 0 && m.afterEnd > 0 {
			r.Out.NonTrivial = true
		}
		if m.afterEnd > 1 {
			r.Probe("two-or-more-calls-after-end")
		}
	}
	b, _ := json.Marshal(sc)
	r.Out.ScenarioKey = string(b) + fmt.Sprintf("|%x", sched.Hash())
}
