package props

import (
	"context"
	"encoding/json"
	"errors"
	"fmt"
	"os"
	"runtime"
	"strings"

	"verif/sim/kit"

	"github.com/ichiban/prolog"
	"github.com/ichiban/prolog/engine"
)

// ---------------------------------------------------------------------------
// C13 — cancelling the context stops any execution promptly; interpreter stays usable
// ---------------------------------------------------------------------------

type c13 struct{}

func init() { Register(c13{}) }

func (c13) ID() string { return "C13" }

const c13LateBound = 1000 // loop iterations tolerated after the context fired (today: 0 or 1)

func (c13) Meta() kit.Meta {
	return kit.Meta{
		Level: "fault_enumeration",
		Rule: "a case = (loop core x 0..3 nested wrappers x per-iteration effect x finite/infinite x entry point x cancellation instant x Canceled/DeadlineExceeded). The instant is the simulated clock: the k-th trampoline poll of ctx.Done(), the n-th loop iteration (tick/0 fires it), between two answers, or before the call. " +
			"distinct = distinct (scenario, instant). non-trivial = the context fired while the call was pending and the call returned the context's error. " +
			"thorough enumerates, for each of 1500 generated programs, every poll instant k = 1..400 (phase enum-instants) in addition to sampling.",
		Assumptions: []string{
			"simulated time = number of ctx.Done() polls (the engine has no other clock); promptness is measured in loop iterations after the instant of firing (bound 1000, today 0..1), never in wall time",
			"a run that neither polls nor reaches tick/0 is ended by a 60 s wall watchdog of the worker and re-run alone (process-death path)",
			"probe queries after the cancel define 'usable afterwards'; effects must be a gap-free prefix 1..m with completed <= m <= started iterations",
		},
		Real: []string{"Interpreter.QueryContext/QuerySolutionContext/ExecContext", "Solutions.Next/Err/Close", "engine trampoline Promise.Force incl. nested Force in findall/bagof/\\+/directives/initialization/consult/term_expansion", "built-ins repeat/between/length/append/retract/assertz"},
		Stub: []string{"context.Context (SimCtx: counting Done())", "fs.FS for consult (SimFS)", "user_output (SimWriter)"},
	}
}

func (c13) Phases() []kit.Phase {
	return []kit.Phase{
		{Name: "sampled", Count: func(tier string) uint64 {
			if tier == "thorough" {
				return 600000
			}
			return 40000
		}},
		{Name: "enum-instants", Exhaustive: true,
			Space: "1500 generated programs x every poll instant k=1..400",
			Count: func(tier string) uint64 {
				if tier == "thorough" {
					return 1500 * 400
				}
				return 0
			},
			Tape: func(base, i uint64) *kit.Tape {
				t := kit.NewTape(kit.RunSeed(base, "C13/prog", i/400))
				t.Fixed, _ = json.Marshal(map[string]int{"k": int(i%400) + 1})
				return t
			}},
	}
}

type c13Scenario struct {
	Entry    string   `json:"entry"`
	Core     string   `json:"core"`
	Wrappers []string `json:"wrappers"`
	Effect   string   `json:"effect"`
	Finite   bool     `json:"finite"`
	Sync     bool     `json:"sync"` // the iteration consists of built-ins only (no user-defined predicate between generator and failure)
	Big      int      `json:"big"`
	Instant  string   `json:"instant"` // poll | tick | between | pre | never
	K        int      `json:"k"`
	Kind     string   `json:"kind"`
	Goal     string   `json:"goal"`
	Program  string   `json:"program"`
	Text     string   `json:"text,omitempty"`
	FreshPre bool     `json:"first_call_under_done_context,omitempty"` // the very first call on the new interpreter is an ExecContext under a context that is already done
	Single   bool     `json:"single_builtin,omitempty"`                // the goal is one call of a built-in that acts at once; the context is done before the call
}

var c13Entries = []string{"query-first", "query-kth", "querysolution", "exec-directive", "exec-init", "exec-consult", "query-consult", "exec-termexp", "query-expand-term", "exec-include", "exec-ensure-loaded", "exec-consult-list", "exec-nested-include"}
var c13Cores = []string{"repeat", "between", "length", "nat", "recursion", "append", "member", "queue", "call_nth", "clause-gen"}
var c13Wrappers = []string{"findall", "bagof", "setof", "not", "catch", "catch-recovery", "call", "once", "ifthen", "forall", "callN", "findall-in-not"}

func c13Gen(g *kit.Lane) c13Scenario {
	var sc c13Scenario
	sc.Entry = c13Entries[g.Choose(len(c13Entries))]
	sc.Core = c13Cores[g.Choose(len(c13Cores))]
	nw := g.Weighted(3, 4, 3, 2)
	for i := 0; i < nw; i++ {
		sc.Wrappers = append(sc.Wrappers, c13Wrappers[g.Choose(len(c13Wrappers))])
	}
	sc.Effect = []string{"none", "assertz", "put_char"}[g.Choose(3)]
	sc.Finite = g.Choose(3) == 0
	sc.Sync = g.Choose(3) == 0
	sc.Big = 3 + g.Choose(30)
	if sc.Core == "member" {
		sc.Finite = true
	}
	sc.Kind = []string{"canceled", "deadline"}[g.Choose(2)]
	switch g.Weighted(10, 5, 1, 1) {
	case 0:
		sc.Instant = "poll"
		switch g.Choose(4) {
		case 0:
			sc.K = 1 + g.Choose(12)
		case 1:
			sc.K = 1 + g.Choose(120)
		case 2:
			sc.K = 1 + g.Choose(1200)
		default:
			sc.K = 1 + g.Choose(3000)
		}
	case 1:
		sc.Instant = "tick"
		sc.K = 1 + g.Choose(40)
	case 2:
		sc.Instant = "pre"
	default:
		sc.Instant = "never"
		sc.Finite = true
	}
	if sc.Entry == "query-kth" {
		sc.Wrappers = nil
		for i := 0; i < nw && i < 2; i++ {
			sc.Wrappers = append(sc.Wrappers, []string{"call", "catch", "alt"}[g.Choose(3)])
		}
		if g.Choose(2) == 0 {
			sc.Instant = "between"
			sc.K = 1 + g.Choose(5)
		}
	}
	sc.FreshPre = g.Choose(8) == 0
	if sc.Instant == "pre" && g.Choose(2) == 0 {
		// no loop at all: one built-in that would act at once. Nothing of it may run under a context that is already done
		sc.Single, sc.Wrappers, sc.Finite = true, nil, true
	}
	return sc
}

// c13Build fills Goal / Program / Text.
func c13Build(sc *c13Scenario) {
	effect := "true"
	switch sc.Effect {
	case "assertz":
		effect = "assertz(n(I))"
	case "put_char":
		effect = "put_char(x)"
	}
	prog := fmt.Sprintf(`:- dynamic(n/1).
:- dynamic(q/1).
:- dynamic(dz/1).
dz(old).
q(0).
body :- tick, cnt(I), %s, done.
nat(0).
nat(N) :- nat(M), N is M + 1.
loop :- body, loop.
loopn(N) :- N =< 0.
loopn(N) :- N > 0, body, M is N - 1, loopn(M).
g(1). g(2). g(3).
g(X) :- g(Y), X is Y + 3.
term_expansion(probe_in, probe_out).
`, effect)
	gen := ""
	switch sc.Core {
	case "repeat":
		gen = "repeat"
	case "between":
		gen = "between(1, 100000000, _)"
	case "length":
		gen = "length(_, _)"
	case "nat":
		gen = "nat(_)"
	case "append":
		gen = "append(_, _, _)"
	case "member":
		gen = "member(_, [" + list1(sc.Big) + "])"
	case "queue":
		gen = "repeat, retract(q(QX)), QY is QX + 1, assertz(q(QY))"
	case "call_nth":
		gen = "call_nth(repeat, _)"
	case "clause-gen":
		gen = "g(_)"
	}
	body := "body"
	failGoal := "fail"
	if sc.Sync {
		// everything between the generator and the failure calls its continuation synchronously
		body = "tick, cnt(I), " + effect + ", done"
		failGoal = []string{"1 =:= 2", "atom(1)", "I < 0", "a == b"}[sc.Big%4]
	}
	var goal string
	switch {
	case sc.Entry == "query-kth":
		if sc.Core == "recursion" {
			gen = "repeat"
		}
		goal = gen + ", body"
		if sc.Finite {
			goal = gen + ", body, cnt(CI), (CI >= " + fmt.Sprint(sc.Big) + " -> ! ; true)"
			// the cut above is inside a control construct of this engine; keep it simple instead:
			goal = "between(1, " + fmt.Sprint(sc.Big) + ", _), body"
		}
	case sc.Core == "recursion":
		goal = "loop"
		if sc.Finite {
			goal = fmt.Sprintf("loopn(%d)", sc.Big)
		}
	case sc.Finite:
		goal = fmt.Sprintf("once((%s, %s, cnt(CI), CI >= %d))", gen, body, sc.Big)
	default:
		goal = fmt.Sprintf("(%s, %s, %s)", gen, body, failGoal)
	}
	for _, w := range sc.Wrappers {
		goal = "(" + goal + ")"
		switch w {
		case "findall":
			goal = "findall(x, " + goal + ", _)"
		case "bagof":
			goal = "(bagof(x, " + goal + ", _) ; true)"
		case "setof":
			goal = "(setof(x, " + goal + ", _) ; true)"
		case "not":
			goal = "(\\+ " + goal + " ; true)"
		case "catch":
			goal = "catch(" + goal + ", _, true)"
		case "catch-recovery":
			goal = "catch(throw(b), _, " + goal + ")"
		case "call":
			goal = "call(" + goal + ")"
		case "once":
			if sc.Entry != "query-kth" {
				goal = "(once(" + goal + ") ; true)"
			}
		case "ifthen":
			goal = "(" + goal + " -> true ; true)"
		case "forall":
			goal = "(\\+ (" + goal + ", \\+ true) ; true)"
		case "callN":
			goal = "call(call, " + goal + ")"
		case "findall-in-not":
			goal = "(\\+ findall(x, " + goal + ", []) ; true)"
		case "alt":
			goal = "(" + goal + " ; fail)"
		}
	}
	if sc.Single {
		goal = []string{"assertz(pre_ran)", "atom_length(abc, _)", "X = 1", "set_prolog_flag(unknown, fail)", "op(200, xfx, pre_ran)"}[sc.Big%5]
	}
	if sc.Entry == "exec-consult-list" {
		prog = strings.Replace(prog, "term_expansion(probe_in, probe_out).\n", "", 1)
	}
	sc.Goal = goal
	sc.Program = prog
	switch sc.Entry {
	case "exec-directive":
		sc.Text = "pa(1).\n:- dynamic(dz/1).\ndz(new).\n:- " + goal + ".\npb(1).\n"
	case "exec-init":
		// a second initialization goal is queued behind the one that loops: it runs iff the first one ends, never later
		sc.Text = "pa(1).\n:- dynamic(dz/1).\ndz(new).\n:- initialization((" + goal + ")).\n:- initialization(late_init).\npb(1).\n"
	case "exec-consult", "query-consult", "exec-include", "exec-ensure-loaded", "exec-consult-list", "exec-nested-include":
		sc.Text = "pa(1).\n:- dynamic(dz/1).\ndz(new).\n:- " + goal + ".\npb(1).\n"
	case "exec-termexp", "query-expand-term":
		sc.Program += "term_expansion(trigger, expanded) :- " + goal + ".\n"
		sc.Text = "pa(1).\n:- dynamic(dz/1).\ndz(new).\ntrigger.\npb(1).\n"
	}
}

func (c13) Exec(r *kit.Run) {
	g := r.Tape.Lane("gen")
	sc := c13Gen(g)
	if r.Tape.Fixed != nil {
		var f struct{ K int }
		if err := json.Unmarshal(r.Tape.Fixed, &f); err != nil {
			kit.Bug("c13 fixed: %v", err)
		}
		sc.Instant, sc.K = "poll", f.K
		sc.Single = false // (a variant of the already-cancelled instant only)
	}
	c13Build(&sc)
	r.Out.Scenario = sc
	b, _ := json.Marshal(sc)
	r.Out.ScenarioKey = string(b)
	if os.Getenv("SIM_TRACE") != "" {
		fmt.Fprintf(os.Stderr, "TRACE scenario %s\n", b)
	}

	kind := context.Canceled
	if sc.Kind == "deadline" {
		kind = context.DeadlineExceeded
	}
	fireAt := 0
	if sc.Instant == "poll" {
		fireAt = sc.K
	}
	ctx := kit.NewSimCtx(fireAt, kind)

	out := &kit.SimWriter{Run: r, Lane: r.Tape.Lane("dev:out")}
	interp := prolog.New(strings.NewReader(""), out)
	fsys := kit.NewSimFS(r, r.Tape.Lane("dev:fs"))
	interp.FS = fsys

	var ticks, dones, late int
	var overrun bool
	interp.Register0(engine.NewAtom("tick"), func(_ *engine.VM, k engine.Cont, env *engine.Env) *engine.Promise {
		ticks++
		if ctx.Fired() {
			late++
			if late > c13LateBound {
				overrun = true
				r.Fail("late-cancel", "still-running:"+sc.Entry, "%d loop iterations ran after the context fired (at poll %d); the pending call did not stop. goal: %s", late, ctx.PollsAtFire(), sc.Goal)
				runtime.Goexit()
			}
		} else if sc.Instant == "tick" && ticks == sc.K {
			r.Logf("tick %d fires the context", ticks)
			ctx.Fire()
		} else if sc.Instant == "poll" && (ticks > sc.K || ticks > 800) {
			// every loop iteration takes at least one trampoline step, so a polling engine has passed poll K by
			// iteration K; the planned instant was not reached (nobody polls this context, or iterations are
			// capped at 800 to bound the cost of a run): cancel now instead, which is just another instant
			r.Logf("iteration %d: poll %d was never reached (polls so far %d); firing from the iteration", ticks, sc.K, ctx.Polls())
			r.Probe("poll-instant-not-reached-fired-from-iteration")
			ctx.Fire()
		}
		return k(env)
	})
	interp.Register1(engine.NewAtom("cnt"), func(vm *engine.VM, i engine.Term, k engine.Cont, env *engine.Env) *engine.Promise {
		return engine.Unify(vm, i, engine.Integer(ticks), k, env)
	})
	lateInits := 0
	interp.Register0(engine.NewAtom("late_init"), func(_ *engine.VM, k engine.Cont, env *engine.Env) *engine.Promise {
		lateInits++
		return k(env)
	})
	interp.Register0(engine.NewAtom("done"), func(_ *engine.VM, k engine.Cont, env *engine.Env) *engine.Promise {
		dones++
		return k(env)
	})
	if sc.FreshPre {
		// whatever this first call does under its dead context, the interpreter must be a working one afterwards
		dead := kit.NewSimCtx(0, kind)
		dead.Fire()
		err := interp.ExecContext(dead, "pre_call(1).\n")
		r.Logf("first call on the new interpreter, under a context that is already done: %s", c13Err(err))
		r.Fault("already-cancelled")
		if err := interp.Exec(sc.Program); err != nil {
			r.Fail("unusable-after-cancel", "first-call-under-done-context", "after a first ExecContext under a context that was already done (it returned %s) the interpreter cannot load a program: %s", c13Err(err), kit.CanonErr(err))
			return
		}
	} else if err := interp.Exec(sc.Program); err != nil {
		kit.Bug("c13 program does not load: %v\n%s", err, sc.Program)
	}
	if sc.Instant == "pre" {
		ctx.Fire()
		r.Fault("already-cancelled")
	}

	// run the entry point; the engine always runs on a goroutine of its own so that tick/0 can end it with Goexit
	var callErr error
	completed := false // the call returned normally (not through Goexit)
	success := false   // the call reported success (answer found / text loaded)
	inGoroutine := func(f func()) {
		done := make(chan struct{})
		go func() {
			defer close(done)
			f()
			completed = true
		}()
		<-done
	}
	answersBefore := 0
	leftBehind := "" // a goroutine running engine code that the (synchronous) ExecContext started and did not end
	switch sc.Entry {
	case "query-first", "query-kth", "query-consult", "query-expand-term":
		q := sc.Goal
		if sc.Entry == "query-consult" {
			fsys.Files["f.pl"] = []byte(sc.Text)
			q = "consult(f)"
		} else if sc.Entry == "query-expand-term" {
			q = "expand_term(trigger, _)"
		}
		sols, err := interp.QueryContext(ctx, q+".")
		if err != nil {
			kit.Bug("c13 query does not parse: %v: %s", err, q)
		}
		n := 0
		if sc.Entry == "query-kth" && sc.Instant == "between" {
			for ; n < sc.K; n++ {
				if !sols.Next() {
					break
				}
			}
			answersBefore = n
			r.Logf("got %d answers, now firing between answers", n)
			ctx.Fire()
			r.Fault("cancel-between-answers")
		}
		// pending call(s): for query-kth keep asking until the iterator stops; otherwise the first answer completes the call
		extra := 0
		for {
			ok := sols.Next()
			if overrun {
				break
			}
			if !ok {
				callErr = sols.Err()
				success = callErr == nil && sc.Entry == "query-kth"
				break
			}
			extra++
			if sc.Entry != "query-kth" {
				success = true
				break
			}
			if extra > 100000 {
				kit.Bug("c13: query-kth produced more than 100000 answers: %s", sc.Goal)
			}
		}
		completed = !overrun
		sols.Close()
		r.Logf("query: answers before=%d after=%d err=%s", answersBefore, extra, c13Err(callErr))
	case "querysolution":
		inGoroutine(func() {
			sol := interp.QuerySolutionContext(ctx, sc.Goal+".")
			callErr = sol.Err()
			success = callErr == nil
		})
	case "exec-directive", "exec-init", "exec-termexp":
		inGoroutine(func() {
			before := kit.EngineGoroutines()
			callErr = interp.ExecContext(ctx, sc.Text)
			success = callErr == nil
			leftBehind = c13LeftBehind(before)
		})
	case "exec-consult", "exec-include", "exec-ensure-loaded", "exec-consult-list", "exec-nested-include":
		fsys.Files["f.pl"] = []byte(sc.Text)
		fsys.Files["outer.pl"] = []byte("po(1).\n:- include(f).\npq(2).\n")
		text := map[string]string{"exec-consult": ":- consult(f).", "exec-include": "px(1).\n:- include(f).\npy(2).\n", "exec-ensure-loaded": ":- ensure_loaded(f).",
			"exec-consult-list": ":- [f, g].", "exec-nested-include": ":- ensure_loaded(outer)."}[sc.Entry]
		fsys.Files["g.pl"] = []byte("pg(1).\n")
		inGoroutine(func() {
			before := kit.EngineGoroutines()
			callErr = interp.ExecContext(ctx, text)
			success = callErr == nil
			leftBehind = c13LeftBehind(before)
		})
	}
	r.Steps(ctx.Polls())
	fired := ctx.Fired()
	r.Logf("returned: completed=%v success=%v err=%s fired=%v polls=%d pollsAtFire=%d ticks=%d dones=%d late=%d", completed, success, c13Err(callErr), fired, ctx.Polls(), ctx.PollsAtFire(), ticks, dones, late)
	if fired {
		switch sc.Instant {
		case "poll":
			r.Fault("cancel-at-poll")
		case "tick":
			r.Fault("cancel-in-iteration")
		}
		if sc.Kind == "deadline" {
			r.Fault("deadline-exceeded")
		}
	} else if sc.Instant != "never" {
		r.Out.Inconclusive = "not_fired"
	}
	if r.Failed() {
		return
	}
	if leftBehind != "" {
		r.Fail("late-cancel", "still-running-after-return:"+sc.Entry, "ExecContext returned %s but a goroutine it started is still executing the text: %s", c13Err(callErr), leftBehind)
		return
	}

	// (1)+(2) returned with the right error
	isCtx := callErr != nil && errors.Is(callErr, kind)
	switch {
	case !fired:
		// nothing was cancelled: the call must have completed its work
		if sc.Finite {
			if callErr != nil {
				r.Fail("wrong-result", "uncancelled-call-failed:"+sc.Entry, "context never fired but the call returned %s. goal: %s", c13Err(callErr), sc.Goal)
				return
			}
			if ticks != sc.Big {
				r.Fail("wrong-result", "uncancelled-iterations:"+sc.Entry, "context never fired; expected %d iterations, ran %d. goal: %s", sc.Big, ticks, sc.Goal)
				return
			}
		}
	case isCtx:
		r.Out.NonTrivial = true
	case callErr == nil && success:
		// fired, yet the call reports completion: legal only if the work really was finished
		if sc.Single && strings.HasPrefix(sc.Entry, "query") {
			r.Fail("wrong-error", "cancel-reported-as-success:single-builtin:"+sc.Entry, "the context was done before the call, yet %s was run and answered (Err()=nil) instead of the context's error", sc.Goal)
			return
		}
		if !sc.Single && (!sc.Finite || ticks < sc.Big) {
			if sc.Entry == "query-kth" {
				// an answer (or exhaustion) instead of the context's error
				r.Fail("wrong-error", "cancel-reported-as-exhaustion:"+sc.Entry, "context fired at poll %d but the iterator ended without the context's error (Err()=nil). goal: %s", ctx.PollsAtFire(), sc.Goal)
			} else {
				r.Fail("wrong-error", "cancel-reported-as-success:"+sc.Entry, "context fired at poll %d during iteration %d of %s, but the call reported success. goal: %s", ctx.PollsAtFire(), ticks, c13Big(&sc), sc.Goal)
			}
			return
		}
		r.Probe("fired-after-work-finished")
	default:
		// some other error (or ErrNoSolutions) although the context fired while work was left
		if sc.Finite && ticks >= sc.Big && callErr == nil {
			break
		}
		r.Fail("wrong-error", "cancel-reported-as:"+c13ErrClass(callErr)+":"+sc.Entry, "context fired at poll %d (%v) but the pending call returned %s instead of the context's error. goal: %s", ctx.PollsAtFire(), kind, c13Err(callErr), sc.Goal)
		return
	}

	// (3) usable afterwards; effects are a gap-free prefix
	c13Probes(r, interp, out, &sc, ticks, dones, fsys, isCtx)
	if r.Failed() || sc.Entry != "exec-init" {
		return
	}
	// an initialization goal queued behind the one that was interrupted runs neither then nor as part of a later load
	if err := interp.Exec("zz_after(1).\n"); err != nil {
		r.Fail("unusable-after-cancel", "later-load-fails:exec-init", "a plain Exec after the cancelled load returned %s", kit.CanonErr(err))
		return
	}
	interrupted := isCtx && !sc.Single && (!sc.Finite || ticks < sc.Big)
	if interrupted && lateInits != 0 {
		r.Fail("unusable-after-cancel", "stale-initialization-goal-ran", "the load was cancelled inside its first initialization goal, yet the goal queued behind it ran %d time(s) (during the cancelled call or during a later, unrelated Exec)", lateInits)
		return
	}
	if lateInits > 1 {
		r.Fail("unusable-after-cancel", "initialization-goal-ran-twice", "the second initialization goal of the text ran %d times", lateInits)
	}
}

func c13LeftBehind(before map[string]string) string {
	for id, st := range kit.EngineGoroutines() {
		if _, ok := before[id]; !ok {
			return st
		}
	}
	return ""
}

func c13Big(sc *c13Scenario) string {
	if sc.Finite {
		return fmt.Sprint(sc.Big)
	}
	return "an infinite loop"
}

// c13Site names where the loop was running, for signatures: outermost wrapper or the core.
func c13Site(sc *c13Scenario) string {
	if len(sc.Wrappers) > 0 {
		ws := append([]string(nil), sc.Wrappers...)
		return strings.Join(ws, "+")
	}
	return "plain"
}

func c13Err(err error) string {
	switch {
	case err == nil:
		return "nil"
	case errors.Is(err, context.Canceled):
		return "context.Canceled"
	case errors.Is(err, context.DeadlineExceeded):
		return "context.DeadlineExceeded"
	case errors.Is(err, prolog.ErrNoSolutions):
		return "ErrNoSolutions"
	}
	return kit.CanonErr(err)
}

func c13ErrClass(err error) string {
	s := c13Err(err)
	if i := strings.IndexAny(s, "(:"); i > 0 {
		s = s[:i]
	}
	return s
}

func c13Probes(r *kit.Run, interp *prolog.Interpreter, out *kit.SimWriter, sc *c13Scenario, ticks, dones int, fsys *kit.SimFS, cancelled bool) {
	ask := func(q string, want ...string) bool {
		sols, err := interp.Query(q + ".")
		if err != nil {
			r.Fail("unusable-after-cancel", "probe-error", "probe %q: %v", q, err)
			return false
		}
		defer sols.Close()
		var got []string
		for len(got) < 50 && sols.Next() {
			v := kit.NewVars()
			if err := sols.Scan(v); err != nil {
				r.Fail("unusable-after-cancel", "probe-error", "probe %q: scan: %v", q, err)
				return false
			}
			got = append(got, v.String())
		}
		if err := sols.Err(); err != nil {
			r.Fail("unusable-after-cancel", "probe-error", "probe %q: %v", q, err)
			return false
		}
		if !kit.SameList(got, want) {
			r.Fail("unusable-after-cancel", "probe-answers:"+q, "after the cancelled call, %q answered %v, expected %v", q, got, want)
			return false
		}
		return true
	}
	if !ask("X = 1", "X=1") || !ask("member(X, [a, b])", "X=a", "X=b") ||
		!ask("assertz(probe(1)), probe(Y), retract(probe(1))", "Y=1") ||
		!ask("findall(X, member(X, [1, 2, 3]), L)", "L=[1,2,3] X=_A") ||
		!ask("\\+ probe(_)", "") {
		return
	}
	// term expansion still works (an aborted expansion must not leave a mode behind)
	if sc.Entry == "exec-consult-list" {
		// this entry runs without any term_expansion/2 clause: reading a text then never polls the context, and a loader
		// that carries on after the cancelled file is not stopped by the first expansion of the next one
	} else if !ask("expand_term(probe_in, X)", "X=probe_out") {
		return
	} else if err := interp.Exec("probe_in."); err != nil {
		r.Fail("unusable-after-cancel", "probe-exec", "Exec of a text that needs term expansion after the cancelled call: %v", err)
		return
	} else if !ask("probe_out", "") {
		return
	}
	// a text whose load was aborted by the cancel defines nothing: the dynamic predicate it re-declares keeps its old clause.
	// (If the text's last clause is visible the text had been committed before the cancel took effect.)
	if loadEntry := strings.HasPrefix(sc.Entry, "exec-") || sc.Entry == "query-consult"; loadEntry {
		// a predicate the text introduces is either there or unknown; anything else (a procedure left half-installed by an
		// undo, say) means the interpreter is not what it was
		for _, pr := range []string{"pa(1)", "pb(1)"} {
			if err := interp.QuerySolution(pr + ".").Err(); err != nil && !strings.Contains(kit.CanonErr(err), "existence_error(procedure") {
				r.Fail("unusable-after-cancel", "predicate-of-the-text-unusable", "after the call, %s ends with %s (neither defined nor unknown)", pr, kit.CanonErr(err))
				return
			}
		}
		committed := interp.QuerySolution("catch(pb(1), _, fail).").Err() == nil
		want := "L=[old] X=_A"
		if committed {
			want = "L=[new] X=_A"
		}
		if !cancelled && !committed {
			want = "" // the call ended in some other way; covered by the checks above
		}
		if want != "" && !ask("findall(X, dz(X), L)", want) {
			return
		}
		if !committed && cancelled && sc.Entry == "exec-consult-list" {
			r.Probe("consult-list-cancelled-in-first-file")
		}
		if !committed && cancelled && sc.Entry == "exec-consult-list" && interp.QuerySolution("catch(pg(1), _, fail).").Err() == nil {
			r.Fail("unusable-after-cancel", "list-continued-after-cancelled-file", "consult([f, g]) was cancelled inside f (nothing of f is visible), yet g was loaded afterwards")
			return
		}
		if !committed && cancelled {
			r.Probe("load-aborted-by-cancel-left-nothing")
			if interp.QuerySolution("catch(pa(1), _, fail).").Err() == nil {
				r.Fail("unusable-after-cancel", "aborted-load-partly-visible", "the load was aborted by the cancel, its last clause pb(1) is not visible but its first clause pa(1) is")
				return
			}
		}
	}
	if err := interp.Exec("pz(1). pz(2)."); err != nil {
		r.Fail("unusable-after-cancel", "probe-exec", "Exec of a small text after the cancelled call: %v", err)
		return
	}
	if !ask("pz(X)", "X=1", "X=2") {
		return
	}
	// effects: a gap-free prefix 1..m, dones <= m <= ticks
	prefix := func(what string, m int) {
		if m < dones || m > ticks {
			r.Fail("effects-mismatch", what+"-count", "%s shows %d completed effects, but %d iterations completed and %d started", what, m, dones, ticks)
		}
	}
	switch sc.Effect {
	case "assertz":
		sols, err := interp.Query("findall(I, n(I), L).")
		if err != nil || !sols.Next() {
			r.Fail("unusable-after-cancel", "probe-error", "listing n/1: %v", err)
			return
		}
		v := kit.NewVars()
		sols.Scan(v)
		sols.Close()
		l := strings.Trim(v.Get("L"), "[]")
		m := 0
		if l != "" {
			for i, x := range strings.Split(l, ",") {
				if x != fmt.Sprint(i+1) {
					r.Fail("effects-mismatch", "n/1-not-a-prefix", "n/1 = [%s] is not 1..m", l)
					return
				}
				m++
			}
		}
		prefix("n/1", m)
	case "put_char":
		for _, c := range out.Sink {
			if c != 'x' {
				r.Fail("effects-mismatch", "sink-garbage", "output sink holds %q", out.Sink)
				return
			}
		}
		prefix("output sink", len(out.Sink))
	}
	if sc.Core == "queue" {
		sols, err := interp.Query("findall(X, q(X), L), length(L, N).")
		if err != nil || !sols.Next() {
			r.Fail("unusable-after-cancel", "probe-error", "listing q/1: %v", err)
			return
		}
		v := kit.NewVars()
		sols.Scan(v)
		sols.Close()
		if n := v.Get("N"); n != "0" && n != "1" {
			r.Fail("effects-mismatch", "queue-size", "the queue pump moves one clause; q/1 now has %s clauses: %s", n, v.Get("L"))
			return
		}
	}
	// a cancelled consult must be repeatable: the 'loaded' mark has to be rolled back
	if (sc.Entry == "exec-consult" || sc.Entry == "query-consult" || sc.Entry == "exec-ensure-loaded" || sc.Entry == "exec-consult-list") && cancelled {
		// (if the file's last clause is visible the load had already been committed when the cancel took effect)
		sol := interp.QuerySolution("catch(pb(1), _, fail).")
		if sol.Err() == nil {
			r.Probe("consult-committed-before-cancel")
			return
		}
		r.Probe("consult-cancelled-then-repeated")
		fsys.Files["f.pl"] = []byte("cz(1). cz(2).\n")
		if err := interp.Exec(":- consult(f)."); err != nil {
			r.Fail("unusable-after-cancel", "re-consult-error", "consult(f) after a cancelled consult(f): %v", err)
			return
		}
		ask("cz(X)", "X=1", "X=2")
	}
}
