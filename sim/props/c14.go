package props

import (
	"encoding/json"
	"fmt"
	"sort"
	"strings"

	"verif/sim/kit"

	"github.com/ichiban/prolog"
	"github.com/ichiban/prolog/engine"
)

// ---------------------------------------------------------------------------
// C14 part A — separate interpreters are isolated (deterministic, one goroutine, interleaved histories)
// ---------------------------------------------------------------------------

type c14 struct{}

func init() { Register(c14{}) }

func (c14) ID() string { return "C14" }

func (c14) Meta() kit.Meta {
	return kit.Meta{
		Level: "exploration",
		Rule: "part A: a case = 2..4 interpreters created at tape-chosen moments and one history of <= 40 operations, each addressed to one interpreter and interleaved at operation granularity: assertz/retract, op/3 (valid and invalid), set_prolog_flag (double_quotes, unknown, char_conversion, debug), char_conversion/2, consult/1 of the same path from per-interpreter file systems with different content, writes to user_output by alias and to the current output, set_output to a host stream and back, atom and variable creation; after every operation a tape-chosen interpreter (usually another one) is observed: clauses, operator entries, flags, conversions, the consulted predicate, how \"ab\" reads, what an unknown procedure does, both output sinks, stream aliases. Every observation of interpreter i must equal what model i predicts - a model that has never heard of the other interpreters. " +
			"distinct = distinct history. non-trivial = at least two interpreters changed the same kind of state and were observed afterwards. " +
			"part B (real threads, race detector; see coverage.part_b_race): seeded workloads on 2..8 goroutines with one interpreter each interning the same fresh atom names, creating variables, loading and querying; invariants on atom identity and variable uniqueness, a porcupine linearizability check of recorded NewAtom/String histories, and the Go race detector.",
		Assumptions: []string{
			"part A is schedule-deterministic (one goroutine); part B is a seeded workload under the Go scheduler: its thread interleaving is not controlled by the tape, its oracles (race detector, recorded-history checks) cannot raise a false alarm but a re-execution reproduces a finding only with high probability; the replay file of a part B finding therefore embeds the recorded history / race report",
			"per-interpreter models: fact list, ISO operator table (shared code with C18), flag map, conversion map, consulted content, sink texts",
		},
		Real: []string{"prolog.New, Interpreter.Exec/QuerySolution", "VM state: procedures, operators, flags, charConversions, streams, input/output, loaded files", "process-wide atom table and variable counter (part B: under real concurrency)"},
		Stub: []string{"fs.FS per interpreter (SimFS)", "output sinks (SimWriter)", "part A: no concurrency at all; part B: nothing stubbed"},
	}
}

func (c14) Phases() []kit.Phase {
	return []kit.Phase{{Name: "sampled", Count: func(tier string) uint64 {
		if tier == "thorough" {
			return 300000
		}
		return 8000
	}}}
}

type c14Op struct {
	I    int    `json:"i"`  // interpreter addressed
	Op   string `json:"op"` // new assert retract op flag conv consult write-user write-cur out-alt out-user intern
	Arg  string `json:"arg,omitempty"`
	Arg2 string `json:"arg2,omitempty"`
	J    int    `json:"observe"` // interpreter observed afterwards
	Obs  string `json:"obs"`
	OpC  *c18Op `json:"op3,omitempty"`
}

type c14Model struct {
	facts  []string
	table  c18Table
	flags  map[string]string
	conv   map[string]string
	who    string
	sink   string
	alt    string
	useAlt bool

	initialDump  []string
	initialFlags map[string]string
}

type c14Interp struct {
	noCallback   bool
	unknowns     int // calls of the Unknown callback (unknown = warning)
	wantUnknowns int
	p            *prolog.Interpreter
	out          *kit.SimWriter
	alt          *kit.SimWriter
	altS         *engine.Stream
	m            *c14Model
}

var c14Greek = []string{"α", "β", "γ"}

// c14Latin: two characters below U+0100 that no query text uses; the enumeration of current_char_conversion/2 with both
// arguments unbound covers exactly the first 256 characters here
var c14Latin = []string{"µ", "ø"}

func (c14) Exec(r *kit.Run) {
	g := r.Tape.Lane("gen")
	nI := 2 + g.Choose(3)
	nOps := 5 + g.Choose(36)
	var ops []c14Op
	created := 0
	for n := 0; n < nOps; n++ {
		var op c14Op
		if created < nI && (created < 2 || g.Choose(6) == 0) {
			op = c14Op{I: created, Op: "new"}
			if g.Choose(2) == 0 {
				op.Arg = "nil-input" // prolog.New(nil, w): a very common way to create an interpreter
			}
			created++
		} else {
			op.I = g.Choose(created)
			kinds := []string{"assert", "retract", "op", "flag", "conv", "consult", "write-user", "write-cur", "out-alt", "out-user", "intern", "cur-open", "cur-step", "cur-close", "read-input", "cur-open-flags", "bad-load", "unknown-warn", "assert-te"}
			op.Op = kinds[g.Weighted(5, 2, 5, 4, 3, 2, 4, 4, 1, 1, 2, 2, 6, 1, 2, 2, 2, 2, 2)]
			switch op.Op {
			case "assert":
				op.Arg = fmt.Sprintf("t%d", n)
			case "op":
				o := c18Op{Kind: "op", P: fmt.Sprint(c18Prios[g.Choose(len(c18Prios))]), S: c18Specs[g.Choose(len(c18Specs))], Names: []string{c18Pool[g.Choose(len(c18Pool))]}}
				if g.Choose(10) == 0 {
					o.Names = []string{c18Special[g.Choose(len(c18Special))]}
				}
				op.OpC = &o
			case "flag":
				f := g.Choose(4)
				op.Arg = []string{"double_quotes", "unknown", "char_conversion", "debug"}[f]
				op.Arg2 = [][]string{{"codes", "chars", "atom"}, {"error", "fail", "warning"}, {"on", "off"}, {"on", "off"}}[f][g.Choose([]int{3, 3, 2, 2}[f])]
			case "conv":
				op.Arg, op.Arg2 = c14Greek[g.Choose(3)], c14Greek[g.Choose(3)]
				if g.Choose(3) == 0 {
					op.Arg, op.Arg2 = c14Latin[g.Choose(2)], c14Latin[g.Choose(2)]
				}
			case "write-user", "write-cur":
				op.Arg = fmt.Sprintf("w%d", n)
			case "intern":
				op.Arg = fmt.Sprintf("k%d", n)
			}
		}
		op.J = g.Choose(created)
		if g.Choose(3) > 0 && created > 1 {
			op.J = (op.I + 1 + g.Choose(created-1)) % created // usually another interpreter than the one just changed
		}
		op.Obs = []string{"facts", "ops", "flags", "conv", "who", "dq", "unknown", "sinks", "aliases", "table"}[g.Weighted(4, 4, 3, 2, 2, 2, 2, 4, 1, 1)]
		ops = append(ops, op)
	}
	r.Out.Scenario = ops
	b, _ := json.Marshal(ops)
	r.Out.ScenarioKey = string(b)

	var its []*c14Interp
	// open enumerations of fact/1, each on one interpreter, stepped between the operations of all interpreters
	type cursor struct {
		i        int
		sols     *prolog.Solutions
		snapshot []string
		started  bool
		pos      int
		flags    map[string]string // enumeration of current_prolog_flag/2: the interpreter's flags when it was called
		stale    bool              // ... its interpreter's flags changed since: nothing is asserted any more
	}
	var cursors []*cursor
	defer func() {
		for _, c := range cursors {
			c.sols.Close()
		}
	}()
	changed := map[string]map[int]bool{}
	mark := func(kind string, i int) {
		if changed[kind] == nil {
			changed[kind] = map[int]bool{}
		}
		changed[kind][i] = true
	}
	ask := func(it *c14Interp, q string) (string, error) {
		sol := it.p.QuerySolution(q + ".")
		if err := sol.Err(); err != nil {
			return "", err
		}
		v := kit.NewVars()
		if err := sol.Scan(v); err != nil {
			return "", err
		}
		return v.String(), nil
	}
	// model-free isolation oracle: an operation on interpreter i must not change any observation of another interpreter j
	fingerprint := func(it *c14Interp) string {
		var parts []string
		for _, q := range []string{
			"stream_property(St, alias(user_output)), stream_property(St, position(P))",
			"stream_property(St, alias(user_input)), stream_property(St, position(P)), stream_property(St, end_of_stream(E))",
			"findall(A, stream_property(_, alias(A)), Tmp), sort(Tmp, L)",
			"current_prolog_flag(double_quotes, A), current_prolog_flag(unknown, B), current_prolog_flag(char_conversion, C), current_prolog_flag(debug, D)",
			"findall(X, fact(X), L)",
			"current_char_conversion('α', A), current_char_conversion('β', B), current_char_conversion('γ', C)",
			"catch(findall(X, who(X), L), _, L = none)",
			"catch(findall(X, clause(term_expansion(X, _), _), L), _, L = none)",
			"findall(c(X, Y), (current_char_conversion(X, Y), X \\== Y), Tmp), sort(Tmp, L)", // the whole table, enumerated
			"findall(P-S-N, current_op(P, S, N), Tmp), length(Tmp, N)",                       // (the list itself is in map order: only its length)
		} {
			got, err := ask(it, q)
			// (variables bound to streams print as <stream>; S = _ keeps them out anyway)
			parts = append(parts, got+"/"+kit.CanonErr(err))
		}
		return strings.Join(parts, " | ") + fmt.Sprintf(" | sinks %q %q", it.out.Sink, it.alt.Sink)
	}
	for n, op := range ops {
		if r.Failed() {
			return
		}
		fpJ, fpBefore := -1, ""
		if op.Op != "new" && len(its) > 1 && n%4 == 0 {
			fpJ = (op.I + 1 + n/4%(len(its)-1)) % len(its)
			if fpJ != op.I {
				fpBefore = fingerprint(its[fpJ])
			}
		}
		if op.Op == "new" {
			it := &c14Interp{out: &kit.SimWriter{Run: r}, alt: &kit.SimWriter{Run: r}}
			if op.Arg == "nil-input" {
				it.p = prolog.New(nil, it.out)
			} else {
				it.p = prolog.New(strings.NewReader("abc"), it.out)
			}
			if op.I%2 == 0 {
				it.p.Unknown = func(name engine.Atom, _ []engine.Term, _ *engine.Env) {
					if name.String() == "zz_undefined_c14" {
						it.unknowns++
					}
				}
			} else {
				it.noCallback = true // the library's own default must do, in every interpreter
			}
			fsys := kit.NewSimFS(r, r.Tape.Lane("dev:fs"))
			fsys.Files["lib.pl"] = []byte(fmt.Sprintf("who(i%d).\nshared(common).\n", op.I))
			it.p.FS = fsys
			it.altS = engine.NewOutputTextStream(it.alt)
			altS := it.altS
			it.p.Register1(engine.NewAtom("alt_stream"), func(vm *engine.VM, s engine.Term, k engine.Cont, env *engine.Env) *engine.Promise {
				return engine.Unify(vm, s, altS, k, env)
			})
			if err := it.p.Exec(":- dynamic(fact/1)."); err != nil {
				kit.Bug("c14: %v", err)
			}
			it.m = &c14Model{table: c18Table{}, flags: map[string]string{"double_quotes": "codes", "unknown": "error", "char_conversion": "on", "debug": "off"}, conv: map[string]string{}}
			// initial operator table and flags are whatever a fresh interpreter reports; they must be the same for every
			// interpreter of the run, whenever it is created (state leaking into New would show here)
			it.m.table = c14Table(it.p)
			for f := range it.m.flags {
				v, err := ask(it, fmt.Sprintf("current_prolog_flag(%s, X)", f))
				if err != nil {
					kit.Bug("c14 flag: %v", err)
				}
				it.m.flags[f] = strings.TrimPrefix(v, "X=")
			}
			if len(its) > 0 {
				first := its[0]
				if !kit.SameList(first.m.initialDump, it.m.table.dump()) || fmt.Sprint(first.m.initialFlags) != fmt.Sprint(it.m.flags) {
					r.Fail("leak", "new-interpreter-not-pristine", "interpreter %d, created after the others had been used, starts with operators %s and flags %v; the first one started with flags %v", op.I, c18Diff(first.m.initialDump, it.m.table.dump()), it.m.flags, first.m.initialFlags)
					return
				}
			}
			it.m.initialDump = it.m.table.dump()
			it.m.initialFlags = map[string]string{}
			for k, v := range it.m.flags {
				it.m.initialFlags[k] = v
			}
			its = append(its, it)
			r.Logf("%d new interpreter %d", n, op.I)
		} else {
			it := its[op.I]
			m := it.m
			var goal string
			mustErr := "no"
			switch op.Op {
			case "assert":
				goal = "assertz(fact(" + op.Arg + "))"
				m.facts = append(m.facts, op.Arg)
				mark("facts", op.I)
			case "retract":
				goal = "(retract(fact(_)) -> true ; true)"
				if len(m.facts) > 0 {
					m.facts = m.facts[1:]
				}
				mark("facts", op.I)
			case "op":
				goal = op.OpC.goal()
				var next c18Table
				mustErr, next = c18Eval(m.table, *op.OpC)
				if mustErr != "yes" {
					m.table = next
				}
				mark("ops", op.I)
			case "flag":
				goal = fmt.Sprintf("set_prolog_flag(%s, %s)", op.Arg, op.Arg2)
				m.flags[op.Arg] = op.Arg2
				mark("flags", op.I)
				for _, c := range cursors {
					if c.i == op.I && c.started {
						c.stale = true
					}
				}
			case "conv":
				goal = fmt.Sprintf("char_conversion('%s', '%s')", op.Arg, op.Arg2)
				if op.Arg == op.Arg2 {
					delete(m.conv, op.Arg)
				} else {
					m.conv[op.Arg] = op.Arg2
				}
				mark("conv", op.I)
			case "consult":
				goal = "consult(lib)"
				m.who = fmt.Sprintf("i%d", op.I)
				mark("who", op.I)
			case "assert-te":
				// a clause for a hook predicate that the library itself knows about (the loader looks it up by name): it
				// belongs to this interpreter like any other clause. It matches nothing that is ever loaded here
				goal = fmt.Sprintf("assertz(term_expansion(te_i%d_%d, x))", op.I, n)
			case "unknown-warn":
				// every interpreter reports the unknown procedures IT meets, whatever the others have met already
				goal = "set_prolog_flag(unknown, warning), \\+ zz_undefined_c14(1, 2)"
				m.flags["unknown"] = "warning"
				mark("flags", op.I)
				for _, c := range cursors {
					if c.i == op.I && c.started {
						c.stale = true
					}
				}
				if !it.noCallback {
					it.wantUnknowns++
				}
			case "bad-load":
				// a text that is abandoned with clauses read but not installed: it defines nothing here (C20) and, above all,
				// nothing anywhere else, now or at anybody's next load
				err := it.p.Exec(fmt.Sprintf("fact(stale_i%d). who(stale_i%d). fact(", op.I, op.I))
				r.Logf("%d interpreter %d: Exec of a text with a syntax error -> %s", n, op.I, kit.CanonErr(err))
				if err == nil {
					r.Fail("wrong-answer", "operation-result:bad-load", "interpreter %d: a text ending in the middle of a clause loaded without error", op.I)
					return
				}
				r.Probe("abandoned-load")
				goal = "true"
			case "write-user":
				goal = "write(user_output, " + op.Arg + ")"
				m.sink += op.Arg
				mark("sinks", op.I)
			case "write-cur":
				goal = "write(" + op.Arg + ")"
				if m.useAlt {
					m.alt += op.Arg
				} else {
					m.sink += op.Arg
				}
				mark("sinks", op.I)
			case "out-alt":
				goal = "alt_stream(S), set_output(S)"
				m.useAlt = true
			case "out-user":
				goal = "set_output(user_output)"
				m.useAlt = false
			case "intern":
				goal = fmt.Sprintf("atom_concat(i%d_, %s, A), atom_length(A, N), copy_term(f(X, Y, X), C), length(L, 3)", op.I, op.Arg)
			case "read-input":
				goal = "catch(get_char(_), _, true)" // whatever it delivers (nothing is asserted): only its effect on OTHER interpreters matters
			case "cur-open-flags":
				if len(cursors) < 3 {
					sols, err := it.p.Query("current_prolog_flag(F, X).")
					if err != nil {
						kit.Bug("c14 cursor: %v", err)
					}
					cursors = append(cursors, &cursor{i: op.I, sols: sols, flags: map[string]string{}})
					r.Logf("%d interpreter %d: open enumeration %d of current_prolog_flag/2", n, op.I, len(cursors)-1)
				}
				goal = "true"
			case "cur-open":
				if len(cursors) < 3 {
					sols, err := it.p.Query("fact(X).")
					if err != nil {
						kit.Bug("c14 cursor: %v", err)
					}
					cursors = append(cursors, &cursor{i: op.I, sols: sols})
					r.Logf("%d interpreter %d: open enumeration %d of fact/1", n, op.I, len(cursors)-1)
				}
				goal = "true"
			case "cur-step", "cur-close":
				goal = "true"
				if len(cursors) == 0 {
					break
				}
				ci := n % len(cursors)
				c := cursors[ci]
				if op.Op == "cur-close" {
					c.sols.Close()
					cursors = append(cursors[:ci], cursors[ci+1:]...)
					break
				}
				if !c.started {
					c.started = true
					c.snapshot = append([]string(nil), its[c.i].m.facts...) // the goal is called now: it sees the clauses of now
					for k, v := range its[c.i].m.flags {
						if c.flags != nil {
							c.flags[k] = v
						}
					}
				}
				if c.flags != nil {
					// enumeration of flags: every answer about one of the changeable flags must be this interpreter's value
					if c.sols.Next() && !c.stale {
						v := kit.NewVars()
						c.sols.Scan(v)
						if want, ok := c.flags[v.Get("F")]; ok && want != v.Get("X") {
							c14Fail(r, changed, "flags", c14Op{J: c.i}, its, fmt.Sprintf("an open enumeration of current_prolog_flag/2 answered %s = %s; this interpreter's value is %s", v.Get("F"), v.Get("X"), want))
							return
						}
						r.Probe("flag-enumeration-stepped-between-other-interpreters-operations")
					}
					break
				}
				ok := c.sols.Next()
				got := "<end>"
				if ok {
					v := kit.NewVars()
					c.sols.Scan(v)
					got = v.Get("X")
				}
				want := "<end>"
				if c.pos < len(c.snapshot) {
					want = c.snapshot[c.pos]
					c.pos++
				}
				r.Logf("%d step enumeration %d (interpreter %d) -> %s", n, ci, c.i, got)
				if got != want {
					mark("facts", c.i)
					c14Fail(r, changed, "facts", c14Op{J: c.i}, its, fmt.Sprintf("an open enumeration of fact/1 answered %s, its call-time snapshot %v says %s", got, c.snapshot, want))
					return
				}
				if len(changed["facts"]) >= 2 {
					r.Probe("cursor-stepped-while-another-interpreter-updated")
				}
			}
			_, err := ask(it, goal)
			r.Logf("%d interpreter %d: %s -> %s", n, op.I, goal, kit.CanonErr(err))
			if it.unknowns != it.wantUnknowns {
				r.Fail("leak", "unknown-procedure-callback", "interpreter %d (of %d): its Unknown callback has run %d times after %s; it met an unknown procedure under unknown = warning %d times", op.I, len(its), it.unknowns, goal, it.wantUnknowns)
				return
			}
			if (err != nil) != (mustErr == "yes") && mustErr != "either" {
				r.Fail("wrong-answer", "operation-result:"+op.Op, "interpreter %d: %s returned %s (expected an error: %s)", op.I, goal, kit.CanonErr(err), mustErr)
				return
			}
		}
		if fpBefore != "" {
			if after := fingerprint(its[fpJ]); after != fpBefore {
				r.Fail("leak", "operation-on-one-interpreter-changed-another:"+op.Op, "after an operation (%s) on interpreter %d the observations of interpreter %d changed:\n  before: %s\n  after:  %s", op.Op, op.I, fpJ, fpBefore, after)
				return
			}
			r.Probe("isolation-fingerprint-compared")
		}
		// observe interpreter J
		if op.J >= len(its) {
			continue
		}
		it := its[op.J]
		m := it.m
		var q, want string
		switch op.Obs {
		case "facts":
			q, want = "findall(X, fact(X), L)", "L=["+strings.Join(m.facts, ",")+"] X=_A"
		case "ops":
			name := c18Pool[n%len(c18Pool)]
			if op.OpC != nil && c18Name(op.OpC.Names[0]) != "" {
				name = c18Name(op.OpC.Names[0])
			}
			var rows []string
			for k, v := range m.table {
				if k[0] == name {
					rows = append(rows, v[0]+"-"+v[1])
				}
			}
			sort.Strings(rows)
			var got []string
			qn := kit.AtomText(name)
			if name == "," || name == "|" {
				qn = "'" + name + "'"
			}
			sols, err := it.p.Query(fmt.Sprintf("current_op(P, S, %s).", qn))
			if err != nil {
				kit.Bug("c14 current_op: %v", err)
			}
			for sols.Next() {
				v := kit.NewVars()
				sols.Scan(v)
				got = append(got, v.Get("P")+"-"+v.Get("S"))
			}
			sols.Close()
			sort.Strings(got)
			r.Logf("%d observe interpreter %d: operators named %s = %v", n, op.J, name, got)
			if !kit.SameList(got, rows) {
				c14Fail(r, changed, "ops", op, its, fmt.Sprintf("current_op(P, S, %s) answers %q, its own history gives %q", qn, got, rows))
			}
			continue
		case "table":
			got := c14Table(it.p).dump()
			if !kit.SameList(got, m.table.dump()) {
				c14Fail(r, changed, "ops", op, its, "operator table differs from its own history: "+c18Diff(m.table.dump(), got))
			}
			continue
		case "flags":
			q = "current_prolog_flag(double_quotes, A), current_prolog_flag(unknown, B), current_prolog_flag(char_conversion, C), current_prolog_flag(debug, D)"
			want = fmt.Sprintf("A=%s B=%s C=%s D=%s", m.flags["double_quotes"], m.flags["unknown"], m.flags["char_conversion"], m.flags["debug"])
		case "conv":
			q = "current_char_conversion('α', A), current_char_conversion('β', B), current_char_conversion('γ', C)"
			cv := func(x string) string {
				if y, ok := m.conv[x]; ok {
					return kit.AtomText(y)
				}
				return kit.AtomText(x)
			}
			want = fmt.Sprintf("A=%s B=%s C=%s", cv("α"), cv("β"), cv("γ"))
			if n%2 == 1 {
				// the same through an enumeration of the whole table
				var pairs []string
				for _, x := range c14Latin {
					if y, ok := m.conv[x]; ok && y != x {
						pairs = append(pairs, "c("+kit.AtomText(x)+","+kit.AtomText(y)+")")
					}
				}
				sort.Strings(pairs)
				q = "findall(c(X, Y), (current_char_conversion(X, Y), X \\== Y), Tmp), sort(Tmp, L)"
				want = "" // compared below
				got, err := ask(it, q)
				r.Logf("%d observe interpreter %d: %s -> %s", n, op.J, q, got)
				i1, i2 := strings.Index(got, "L=["), strings.Index(got, "]")
				if err != nil || i1 < 0 || i2 < i1 {
					kit.Bug("c14 conv enumeration: %q %v", got, err)
				}
				i2 = strings.LastIndex(got, "]")
				var have []string
				if inner := got[i1+3 : i2]; inner != "" {
					have = strings.Split(strings.ReplaceAll(inner, "),c(", ");c("), ";")
				}
				sort.Strings(have)
				if !kit.SameList(have, pairs) {
					c14Fail(r, changed, "conv", op, its, fmt.Sprintf("the enumeration of current_char_conversion/2 shows %v, its own history gives %v", have, pairs))
					return
				}
				continue
			}
		case "who":
			q = "catch(findall(X, who(X), L), error(existence_error(_, _), _), L = none)"
			want = "L=none X=_A"
			if m.who != "" {
				want = "L=[" + m.who + "] X=_A"
			}
			if m.flags["unknown"] != "error" && m.who == "" {
				want = "L=[] X=_A"
			}
		case "dq":
			q = `X = "ab"`
			want = map[string]string{"codes": "X=[97,98]", "chars": "X=[a,b]", "atom": "X=ab"}[m.flags["double_quotes"]]
		case "unknown":
			q = "catch((undefined_zzz_c14 -> R = true ; R = false), error(existence_error(_, _), _), R = err)"
			want = map[string]string{"error": "R=err", "fail": "R=false", "warning": "R=false"}[m.flags["unknown"]]
		case "sinks":
			if string(it.out.Sink) != m.sink || string(it.alt.Sink) != m.alt {
				c14Fail(r, changed, "sinks", op, its, fmt.Sprintf("its user_output received %q and its second stream %q; its own history wrote %q and %q", it.out.Sink, it.alt.Sink, m.sink, m.alt))
			}
			continue
		case "aliases":
			q = "findall(A, stream_property(_, alias(A)), K), sort(K, L), K = _"
			want = "A=_A L=[user_input,user_output]"
		}
		got, err := ask(it, q)
		r.Logf("%d observe interpreter %d: %s -> %q %s", n, op.J, q, got, kit.CanonErr(err))
		if op.Obs == "aliases" && err == nil {
			// K (the unsorted list) is not asserted
			if i := strings.Index(got, " K="); i > 0 {
				j := strings.Index(got[i+1:], " L=")
				got = got[:i] + got[i+1+j:]
			}
		}
		if err != nil || got != want {
			c14Fail(r, changed, op.Obs, op, its, fmt.Sprintf("%s answers %q (err %s), its own history gives %q", q, got, kit.CanonErr(err), want))
		}
	}
	for _, m := range changed {
		if len(m) >= 2 {
			r.Out.NonTrivial = true
		}
	}
}

func c14Fail(r *kit.Run, changed map[string]map[int]bool, kind string, op c14Op, its []*c14Interp, msg string) {
	others := ""
	for i := range changed[kind] {
		if i != op.J {
			others = ":another-interpreter-changed-" + kind
		}
	}
	r.Fail("leak", "observation-differs:"+kind+others, "interpreter %d (of %d): %s", op.J, len(its), msg)
}

func c14Table(p *prolog.Interpreter) c18Table {
	t := c18Table{}
	sols, err := p.Query("current_op(P, S, N).")
	if err != nil {
		kit.Bug("c14 table: %v", err)
	}
	defer sols.Close()
	for sols.Next() {
		v := kit.NewVars()
		sols.Scan(v)
		t[[2]string{unquote(v.Get("N")), c18Class(v.Get("S"))}] = [2]string{v.Get("P"), v.Get("S")}
	}
	return t
}
