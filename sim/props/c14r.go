package props

import (
	"context"
	"encoding/json"
	"errors"
	"fmt"
	"os"
	"os/exec"
	"reflect"
	"runtime"
	"sort"
	"strings"
	"sync"
	"sync/atomic"
	"time"

	"verif/sim/kit"

	"github.com/anishathalye/porcupine"
	"github.com/ichiban/prolog"
	"github.com/ichiban/prolog/engine"
)

// ---------------------------------------------------------------------------
// C14 part B — concurrent interpreters on real threads: race detector, atom/variable invariants, porcupine
// (registered as C14R; ./check.sh C14 runs part A and then this with a -race binary)
// ---------------------------------------------------------------------------

type c14r struct{}

func init() { Register(c14r{}) }

func (c14r) ID() string { return "C14R" }

func (c14r) Meta() kit.Meta {
	return kit.Meta{
		Level:            "exploration",
		Nondeterministic: true,
		Rule: "a case = a seeded workload for 2, 4 or 8 goroutines released together, each creating its own interpreter (prolog.New interns a few hundred atoms), loading a small program and running 3 rounds over 6 fresh atom names shared by all goroutines of the run: interning through atom_concat/3 and directly through engine.NewAtom, comparing with the atom remembered from an earlier round by unification, creating variables, formatting an error, number_chars/2, writeq/1. " +
			"Oracles: Go race detector (binary built with -race, halt on first report); same name => same atom within and across goroutines; no variable handed out twice; every recorded NewAtom/String history (stamped with a global atomic event counter) is linearizable w.r.t. the sequential model 'a name keeps its atom, a new name gets an atom never handed out before, String inverts it' (porcupine, 10 s timeout, Unknown counted as inconclusive). " +
			"distinct = distinct workload (the thread schedule is the Go runtime's and is not counted). non-trivial = at least two goroutines interned the same fresh name with overlapping call intervals.",
		Assumptions: []string{
			"thread interleaving is NOT decided by the tape in this part; the oracles are sound (no report without a real race / a real non-linearizable history), detection is probabilistic",
			"a replay file of this part embeds the recorded evidence; ./replay.sh re-runs the workload up to 10 times",
		},
		Real: []string{"engine.NewAtom / Atom.String (atom table under RWMutex)", "engine.NewVariable (atomic counter)", "prolog.New, Exec, QuerySolution on one interpreter per goroutine", "Exception.Error (package-level write options)"},
		Stub: []string{"nothing"},
	}
}

func (c14r) Phases() []kit.Phase {
	return []kit.Phase{
		{Name: "threads", Count: func(tier string) uint64 {
			if tier == "thorough" {
				return 6000
			}
			return 200
		}},
		// the same workload, each in a process of its own: lazily initialised package-level state (a cache filled on first
		// use, a table built on first call) races only the first time it is touched in a process
		{Name: "fresh-process", Count: func(tier string) uint64 {
			if tier == "thorough" {
				return 1200
			}
			return 48
		}, Tape: func(base, i uint64) *kit.Tape {
			t := kit.NewTape(kit.RunSeed(base, "C14R/fresh", i))
			t.Fixed = []byte(`{"fresh":true}`)
			return t
		}},
	}
}

var c14rRuns int64

type c14rOp struct {
	Client int    `json:"c"`
	Kind   string `json:"k"` // intern | string
	Name   string `json:"name,omitempty"`
	Atom   uint64 `json:"atom"`
	Call   int64  `json:"call"`
	Ret    int64  `json:"ret"`
}

type c14rScenario struct {
	Goroutines int      `json:"goroutines"`
	Prefix     string   `json:"prefix"`
	Names      int      `json:"names"`
	Rounds     int      `json:"rounds"`
	Evidence   []string `json:"evidence,omitempty"`
	History    []c14rOp `json:"history,omitempty"`
}

func (c14r) Exec(r *kit.Run) {
	if r.Tape.Fixed != nil && os.Getenv("SIM_C14R_CHILD") == "" {
		c14rInChild(r)
		return
	}
	g := r.Tape.Lane("gen")
	sc := &c14rScenario{Goroutines: []int{2, 4, 8}[g.Choose(3)], Names: 6, Rounds: 3}
	sc.Prefix = fmt.Sprintf("r%x_%d_", r.Tape.Seed&0xfffffff, atomic.AddInt64(&c14rRuns, 1)) // names never interned before in this process
	orders := make([][]int, sc.Goroutines)
	for i := range orders {
		o := make([]int, sc.Names)
		for k := range o {
			o[k] = k
		}
		for k := range o {
			j := k + g.Choose(len(o)-k)
			o[k], o[j] = o[j], o[k]
		}
		orders[i] = o
	}
	r.Out.Scenario = sc
	b, _ := json.Marshal(map[string]interface{}{"g": sc.Goroutines, "orders": orders})
	r.Out.ScenarioKey = string(b)

	var clock int64
	barrier := make([]int64, sc.Names+32)
	runNo := atomic.LoadInt64(&c14rRuns)
	// a struct type nobody has scanned into before (per run), shared by all goroutines of the run
	freshType := reflect.StructOf([]reflect.StructField{{Name: "X", Type: reflect.TypeOf(0)}, {Name: fmt.Sprintf("Unused%d", runNo), Type: reflect.TypeOf("")}})
	wait := func(k int) {
		atomic.AddInt64(&barrier[k], 1)
		for atomic.LoadInt64(&barrier[k]) < int64(sc.Goroutines) {
			runtime.Gosched()
		}
	}
	start := make(chan struct{})
	var wg sync.WaitGroup
	type result struct {
		ops      []c14rOp
		vars     []engine.Variable
		evidence []string
		atoms    map[string]engine.Atom
	}
	res := make([]result, sc.Goroutines)
	for gi := 0; gi < sc.Goroutines; gi++ {
		wg.Add(1)
		go func(gi int) {
			defer wg.Done()
			out := &res[gi]
			out.atoms = map[string]engine.Atom{}
			<-start
			// phase 1: all goroutines intern the same fresh names at (nearly) the same instant, behind a spin barrier per name
			for k := 0; k < sc.Names; k++ {
				name := fmt.Sprintf("%st%d", sc.Prefix, k)
				atomic.AddInt64(&barrier[k], 1)
				for atomic.LoadInt64(&barrier[k]) < int64(sc.Goroutines) {
					runtime.Gosched()
				}
				call := atomic.AddInt64(&clock, 1)
				a := engine.NewAtom(name)
				ret := atomic.AddInt64(&clock, 1)
				out.ops = append(out.ops, c14rOp{Client: gi, Kind: "intern", Name: name, Atom: uint64(a), Call: call, Ret: ret})
				out.atoms[name] = a
				call = atomic.AddInt64(&clock, 1)
				s := a.String()
				ret = atomic.AddInt64(&clock, 1)
				out.ops = append(out.ops, c14rOp{Client: gi, Kind: "string", Name: s, Atom: uint64(a), Call: call, Ret: ret})
				for n := 0; n < 20; n++ {
					out.vars = append(out.vars, engine.NewVariable())
				}
			}
			// phase 2: the same through interpreters
			var sink strings.Builder // this interpreter's own output
			p := prolog.New(strings.NewReader(fmt.Sprintf("t(g%d, X, Y, X). ", gi)), &sink)
			if err := p.Exec(":- dynamic(seen/2). p(1). p(2). q(X) :- p(X)."); err != nil {
				out.evidence = append(out.evidence, fmt.Sprintf("goroutine %d: program did not load: %v", gi, err))
				return
			}
			for round := 0; round < sc.Rounds; round++ {
				for _, k := range orders[gi] {
					name := fmt.Sprintf("%s%d", sc.Prefix, k)
					// direct interning, recorded for the linearizability check
					call := atomic.AddInt64(&clock, 1)
					a := engine.NewAtom(name)
					ret := atomic.AddInt64(&clock, 1)
					out.ops = append(out.ops, c14rOp{Client: gi, Kind: "intern", Name: name, Atom: uint64(a), Call: call, Ret: ret})
					if prev, ok := out.atoms[name]; ok && prev != a {
						out.evidence = append(out.evidence, fmt.Sprintf("goroutine %d: engine.NewAtom(%q) returned atom %d in round %d but %d earlier", gi, name, a, round, prev))
					}
					out.atoms[name] = a
					call = atomic.AddInt64(&clock, 1)
					s := a.String()
					ret = atomic.AddInt64(&clock, 1)
					out.ops = append(out.ops, c14rOp{Client: gi, Kind: "string", Name: s, Atom: uint64(a), Call: call, Ret: ret})
					// through the interpreter: the atom built now must unify with the one remembered from an earlier round
					q := fmt.Sprintf("atom_concat('%s', '%d', A), (seen(%d, B) -> (A = B -> R = same ; R = different) ; assertz(seen(%d, A)), R = first).", sc.Prefix, k, k, k)
					sol := p.QuerySolution(q)
					var v struct{ R string }
					if err := sol.Scan(&v); err != nil {
						out.evidence = append(out.evidence, fmt.Sprintf("goroutine %d: %s failed: %v", gi, q, err))
					} else if v.R == "different" || (round == 0) != (v.R == "first") {
						out.evidence = append(out.evidence, fmt.Sprintf("goroutine %d round %d: two internings of '%s%d' in one interpreter: %s", gi, round, sc.Prefix, k, v.R))
					}
					for n := 0; n < 20; n++ {
						out.vars = append(out.vars, engine.NewVariable())
					}
					// variables, error text (package-level write options), number parsing, writing
					if err := p.QuerySolution("X is foo + 1.").Err(); err == nil || !strings.Contains(err.Error(), "foo") {
						out.evidence = append(out.evidence, fmt.Sprintf("goroutine %d: error text of 'X is foo + 1' is %v", gi, err))
					}
					var w struct{ X int }
					if err := p.QuerySolution("number_chars(X, ['4', '2']), length(L, 3), copy_term(f(L, Y, Y), _), q(_).").Scan(&w); err != nil || w.X != 42 {
						out.evidence = append(out.evidence, fmt.Sprintf("goroutine %d: number_chars gave %v %v", gi, w.X, err))
					}
				}
			}
			// phase 3: every goroutine touches the same part of the API at the same instant (a barrier before each step)
			bad := func(what string, got interface{}, err error) {
				out.evidence = append(out.evidence, fmt.Sprintf("goroutine %d: %s gave %v (err %v)", gi, what, got, err))
			}
			fsys := kit.NewSimFS(nil, nil)
			fsys.Files["lib.pl"] = []byte(fmt.Sprintf("who(g%d).\n", gi))
			p.FS = fsys
			steps := []func(){
				func() {
					if err := p.Exec("greeting --> [hello], name.\nname --> [world].\nname --> [prolog].\n"); err != nil {
						bad("loading a grammar", nil, err)
					}
				},
				func() {
					if err := p.QuerySolution("phrase(greeting, [hello, world]), \\+ phrase(greeting, [hello, there]).").Err(); err != nil {
						bad("phrase/2", nil, err)
					}
				},
				func() {
					dest := reflect.New(freshType)
					if err := p.QuerySolution("X is 6 * 7.").Scan(dest.Interface()); err != nil || dest.Elem().Field(0).Int() != 42 {
						bad("Scan into a struct", dest.Elem().Field(0).Int(), err)
					}
				},
				func() {
					m := map[string]interface{}{}
					if err := p.QuerySolution("X = [a, 1, f].").Scan(m); err != nil || fmt.Sprint(m["X"]) != "[a 1 f]" {
						bad("Scan into a map", m["X"], err)
					}
				},
				func() {
					var w struct{ X string }
					if err := p.QuerySolution("consult(lib), who(X).").Scan(&w); err != nil || w.X != fmt.Sprintf("g%d", gi) {
						bad("consult(lib), who(X)", w.X, err)
					}
				},
				func() {
					var w struct{ X prolog.TermString }
					if err := p.QuerySolution("op(700, xfx, ===), X = '==='(a, b).").Scan(&w); err != nil || w.X != "a===b" {
						bad("op/3 and writing with it", w.X, err)
					}
				},
				func() {
					var w struct{ X []int }
					if err := p.QuerySolution("set_prolog_flag(double_quotes, codes), atom_codes(ab, X).").Scan(&w); err != nil || fmt.Sprint(w.X) != "[97 98]" {
						bad("atom_codes/2", w.X, err)
					}
				},
				func() {
					var w struct{ L []string }
					if err := p.QuerySolution("findall(S, sub_atom(abc, _, 2, _, S), L0), sort(L0, L).").Scan(&w); err != nil || fmt.Sprint(w.L) != "[ab bc]" {
						bad("sub_atom/5", w.L, err)
					}
				},
				func() {
					if err := p.QuerySolution("catch(throw(ball), B, true), B == ball, catch(atom_length(1, _), error(type_error(_, _), _), true).").Err(); err != nil {
						bad("catch/3", nil, err)
					}
				},
				func() {
					// write options with a table of variable names; the text goes to this interpreter's own sink
					a := sink.Len()
					err := p.QuerySolution(fmt.Sprintf("write_term(f(X, Y, X, g%d), [variable_names(['Foo%d'=X, 'Bar'=Y]), quoted(true)]).", gi, gi)).Err()
					if got, want := sink.String()[a:], fmt.Sprintf("f(Foo%d,Bar,Foo%d,g%d)", gi, gi, gi); err != nil || got != want {
						bad("write_term/2 with variable_names", got, err)
					}
				},
				func() {
					// allocations that consult the free-memory probe (more than 8 terms at once)
					var w struct{ N, M int }
					if err := p.QuerySolution("functor(T, f, 12), T =.. [_|As], length(As, N), length(L, 20), copy_term(L, L2), length(L2, M).").Scan(&w); err != nil || w.N != 12 || w.M != 20 {
						bad("functor/3, =../2, length/2 with more than 8 terms", w, err)
					}
				},
				func() {
					// a load that is abandoned with clauses pending must not reach anybody's next load
					if err := p.Exec(fmt.Sprintf("who(stale_g%d). who(stale2_g%d). who(", gi, gi)); err == nil {
						bad("a text with a syntax error", "no error", nil)
					}
				},
				func() {
					var w struct{ L []string }
					if err := p.QuerySolution("consult(lib), findall(X, who(X), L).").Scan(&w); err != nil || fmt.Sprint(w.L) != fmt.Sprintf("[g%d]", gi) {
						bad("consult(lib), findall(X, who(X), L) after an abandoned load", w.L, err)
					}
				},
				func() {
					var w struct {
						T  prolog.TermString
						Vs prolog.TermString
					}
					err := p.QuerySolution("read_term(T, [variable_names(Vs)]).").Scan(&w)
					if want := fmt.Sprintf("t(g%d,", gi); err != nil || !strings.HasPrefix(string(w.T), want) || !strings.HasPrefix(string(w.Vs), "['X'=") {
						bad("read_term/2 from its own input", fmt.Sprint(w.T, " ", w.Vs), err)
					}
				},
				func() {
					// numbers turned into text (and back), a different one in every interpreter
					var w struct {
						A string
						N int
					}
					n := 3000009 + 1000*gi
					q := fmt.Sprintf("number_chars(%d, Cs), atom_chars(A, Cs), number_codes(%d, Ds), number_codes(N, Ds).", n, n+1)
					if err := p.QuerySolution(q).Scan(&w); err != nil || w.A != fmt.Sprint(n) || w.N != n+1 {
						bad("number_chars/2, number_codes/2 of its own number", fmt.Sprint(w.A, " ", w.N), err)
					}
				},
				func() {
					// an iterator abandoned after its context was cancelled: Close, then Err, while the search goroutine winds up
					ctx, cancel := context.WithCancel(context.Background())
					defer cancel()
					sols, err := p.QueryContext(ctx, "member(X, [1, 2, 3]).")
					if err != nil || !sols.Next() {
						bad("QueryContext, Next", nil, err)
						return
					}
					cancel()
					_ = sols.Close()
					if err := sols.Err(); err != nil && !errors.Is(err, context.Canceled) {
						bad("Err after cancel and Close", nil, err)
					}
				},
				func() {
					var w struct{ L prolog.TermString }
					if err := p.QuerySolution("setof(X-Y, member(X-Y, [b-1, a-2, a-1]), L0), bagof(K, V^member(K-V, L0), L).").Scan(&w); err != nil || w.L != "[a,a,b]" {
						bad("setof/3, bagof/3", w.L, err)
					}
				},
			}
			for si, step := range steps {
				wait(sc.Names + si)
				step()
			}
		}(gi)
	}
	close(start)
	wg.Wait()

	// ---- oracles over what was recorded ----
	var evidence []string
	var hist []c14rOp
	seenVar := map[engine.Variable]int{}
	byName := map[string]map[engine.Atom][]int{}
	for gi := range res {
		evidence = append(evidence, res[gi].evidence...)
		hist = append(hist, res[gi].ops...)
		for _, v := range res[gi].vars {
			if o, ok := seenVar[v]; ok {
				evidence = append(evidence, fmt.Sprintf("variable %d was handed out twice (goroutines %d and %d)", v, o, gi))
				break
			}
			seenVar[v] = gi
		}
		for n, a := range res[gi].atoms {
			if byName[n] == nil {
				byName[n] = map[engine.Atom][]int{}
			}
			byName[n][a] = append(byName[n][a], gi)
		}
	}
	var names []string
	for n := range byName {
		names = append(names, n)
	}
	sort.Strings(names)
	for _, n := range names {
		if len(byName[n]) > 1 {
			evidence = append(evidence, fmt.Sprintf("the name %q has %d different atoms: %v", n, len(byName[n]), byName[n]))
		}
	}
	sort.Slice(hist, func(i, j int) bool { return hist[i].Call < hist[j].Call })
	// overlap probe: two goroutines interned one name with overlapping call intervals
	lastRet := map[string][2]int64{} // name -> (latest return stamp seen so far, client)
	for _, h := range hist {
		if h.Kind != "intern" {
			continue
		}
		if lr, ok := lastRet[h.Name]; ok && h.Call < lr[0] && int64(h.Client) != lr[1] {
			r.Out.NonTrivial = true
			r.Probe("overlapping-interning-of-one-name")
		}
		if lr, ok := lastRet[h.Name]; !ok || h.Ret > lr[0] {
			lastRet[h.Name] = [2]int64{h.Ret, int64(h.Client)}
		}
	}
	r.Steps(len(hist))
	class, sig := "", ""
	switch {
	case len(evidence) > 0:
		class, sig = "shared-state", "atom-or-variable-invariant"
		for _, e := range evidence {
			if strings.Contains(e, "variable") {
				sig = "duplicate-variable"
			}
		}
	default:
		switch c14rLinearizable(hist) {
		case porcupine.Illegal:
			class, sig = "non-linearizable", "atom-table-history"
			evidence = append(evidence, "the recorded NewAtom/String history is not linearizable (see history in the replay file)")
			sc.History = hist
		case porcupine.Unknown:
			r.Out.Inconclusive = "unknown"
		}
	}
	if class != "" {
		sc.Evidence = evidence
		r.Fail(class, sig, "%s", strings.Join(evidence, "; "))
	}
}

type c14rState struct {
	byName map[string]uint64
	used   map[uint64]bool
}

func c14rLinearizable(hist []c14rOp) porcupine.CheckResult {
	model := porcupine.Model{
		Init: func() interface{} { return c14rState{byName: map[string]uint64{}, used: map[uint64]bool{}} },
		Step: func(state, input, output interface{}) (bool, interface{}) {
			st := state.(c14rState)
			op := input.(c14rOp)
			switch op.Kind {
			case "intern":
				if a, ok := st.byName[op.Name]; ok {
					return a == op.Atom, st
				}
				if st.used[op.Atom] {
					return false, st
				}
				n := c14rState{byName: map[string]uint64{}, used: map[uint64]bool{}}
				for k, v := range st.byName {
					n.byName[k] = v
				}
				for k := range st.used {
					n.used[k] = true
				}
				n.byName[op.Name] = op.Atom
				n.used[op.Atom] = true
				return true, n
			default: // string: the atom must be known under exactly that name
				a, ok := st.byName[op.Name]
				return ok && a == op.Atom, st
			}
		},
		Equal: func(a, b interface{}) bool {
			x, y := a.(c14rState), b.(c14rState)
			if len(x.byName) != len(y.byName) {
				return false
			}
			for k, v := range x.byName {
				if y.byName[k] != v {
					return false
				}
			}
			return true
		},
	}
	var ops []porcupine.Operation
	for _, h := range hist {
		ops = append(ops, porcupine.Operation{ClientId: h.Client, Input: h, Call: h.Call, Output: h.Atom, Return: h.Ret})
	}
	return porcupine.CheckOperationsTimeout(model, ops, 10*time.Second)
}

// c14rInChild runs this very workload in a process of its own (the replay role of the same binary) and turns what the
// child reports - a violation, a race report, a fatal runtime error - into this run's outcome.
func c14rInChild(r *kit.Run) {
	g := r.Tape.Lane("gen")
	_ = g
	dir, err := os.MkdirTemp("", "verif-c14r-")
	if err != nil {
		kit.Bug("c14r: %v", err)
	}
	defer os.RemoveAll(dir)
	rf := &kit.ReplayFile{Property: "C14R", Class: "child", Signature: "child", RunSeed: r.Tape.Seed, Tier: r.Tier, Lanes: map[string][]uint32{}, Fixed: r.Tape.Fixed}
	// the child draws the same choices: give it a generating tape by seed (no recorded lanes yet)
	file := dir + "/workload.json"
	if err := os.WriteFile(file, rf.JSON(), 0o644); err != nil {
		kit.Bug("c14r: %v", err)
	}
	cmd := exec.Command(os.Args[0], "-test.run", "^TestSim$", "-test.timeout", "0", "-test.cpu", "8")
	cmd.Env = append(os.Environ(), "SIM_ROLE=replay", "SIM_FILE="+file, "SIM_C14R_CHILD=1", "SIM_REPLAY_GENERATE=1")
	ob, _ := cmd.CombinedOutput()
	out := string(ob)
	r.Out.Scenario = map[string]interface{}{"fresh_process": true, "seed": r.Tape.Seed}
	r.Out.ScenarioKey = fmt.Sprintf("fresh|%d", r.Tape.Seed)
	r.Out.NonTrivial = true
	r.Steps(1)
	excerpt := func(at int) string {
		e := out[at:]
		if len(e) > 5000 {
			e = e[:5000]
		}
		return e
	}
	switch {
	case strings.Contains(out, "WARNING: DATA RACE"):
		rep := excerpt(strings.Index(out, "WARNING: DATA RACE"))
		r.Out.Scenario = map[string]interface{}{"fresh_process": true, "seed": r.Tape.Seed, "race_report": strings.Split(rep, "\n")}
		r.Fail("race", "race", "data race reported by the race detector in a fresh process: %s", c14rFrames(rep))
	case strings.Contains(out, "fatal error:"):
		rep := excerpt(strings.Index(out, "fatal error:"))
		r.Fail("fatal-runtime-error", "fatal-runtime-error", "the process died: %s", strings.SplitN(rep, "\n", 2)[0])
	case strings.Contains(out, "REPLAY-RESULT class="):
		line := out[strings.Index(out, "REPLAY-RESULT class="):]
		line = strings.SplitN(line, "\n", 2)[0]
		var class, sig string
		fmt.Sscanf(line, "REPLAY-RESULT class=%s signature=%s", &class, &sig)
		msg := ""
		if i := strings.Index(out, "REPLAY-MESSAGE "); i >= 0 {
			msg = strings.SplitN(out[i+15:], "\n", 2)[0]
		}
		r.Fail(class, sig, "in a fresh process: %s", msg)
	case !strings.Contains(out, "REPLAY-RESULT none"):
		kit.Bug("c14r child gave no result:\n%s", out)
	}
}

func c14rFrames(report string) string {
	var out []string
	for _, l := range strings.Split(report, "\n") {
		t := strings.TrimSpace(l)
		if strings.HasPrefix(t, "Write at") || strings.HasPrefix(t, "Read at") || strings.HasPrefix(t, "Previous write at") || strings.HasPrefix(t, "Previous read at") || strings.HasPrefix(t, "github.com/ichiban/prolog") {
			out = append(out, t)
		}
		if len(out) >= 6 {
			break
		}
	}
	return strings.Join(out, " | ")
}
