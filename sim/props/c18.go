package props

import (
	"encoding/json"
	"fmt"
	"io"
	"sort"
	"strings"

	"verif/sim/kit"

	"github.com/ichiban/prolog"
	"github.com/ichiban/prolog/engine"
)

// ---------------------------------------------------------------------------
// C18 — the operator table evolves as op/3 defines; failed updates change nothing
// ---------------------------------------------------------------------------

type c18 struct{}

func init() { Register(c18{}) }

func (c18) ID() string { return "C18" }

func (c18) Meta() kit.Meta {
	return kit.Meta{
		Level: "exploration",
		Rule: "a case = a history of 1..25 operations on one interpreter: op(P,S,Names) with priorities in and out of range, the seven specifiers and non-specifiers, single names and lists of 1..4 names from a pool of ordinary, symbolic and special names (',', '|', '[]', '{}') with an invalid member (variable, integer, compound, forbidden name, class conflict) injected at a chosen position of the list, partial lists; current_op/3 in all 8 instantiation patterns; read and write probes for pool names. " +
			"The scheduler is idle for this property (no concurrency in its statement); the fault is the failing update, injected at every position of a name list in the enumeration phase. " +
			"distinct = distinct history. non-trivial = at least one failing and at least one succeeding op/3 that changed the table. " +
			"thorough also enumerates, for lists of length 1..4 over the pool, every position of every kind of invalid member after a random prefix history.",
		Assumptions: []string{
			"ISO operator-table model: one (priority, specifier) per (name, class); priority 0 removes; no infix together with postfix of one name; ',' unmodifiable; '|' only infix with priority 0 or >= 1001; '[]' and '{}' never; the initial table is whatever current_op/3 reports before the history starts",
			"answer sets of current_op/3 are compared as multisets (the implementation enumerates a Go map); error kinds of invalid calls are not asserted, only that they raise and change nothing; op(0, S, N) where N has an operator of the excluded class may raise or succeed (the table is the same either way)",
			"read probe: '(a N b)', '(N a)', '(a N)' parse as N(a,b) / N(a) iff the model has that class for N; write probe: writeq differs from write_canonical for N(a,b) / N(a) iff defined",
		},
		Real: []string{"op/3, current_op/3 (engine.Op, validateOp, CurrentOp, operators.define/remove)", "parser and writer consulting VM.operators", "bootstrap.pl operator directives"},
		Stub: []string{"nothing is stubbed; scheduler and devices idle"},
	}
}

func (c18) Phases() []kit.Phase {
	return []kit.Phase{
		{Name: "sampled", Count: func(tier string) uint64 {
			if tier == "thorough" {
				return 600000
			}
			return 16000
		}},
		{Name: "enum-list-faults", Exhaustive: true,
			Space: "name lists of length 1..4 x every position x 8 kinds of invalid member x 150 prefix histories",
			Count: func(tier string) uint64 {
				if tier == "thorough" {
					return 150 * 10 * 8
				}
				return 0
			},
			Tape: func(base, i uint64) *kit.Tape {
				t := kit.NewTape(kit.RunSeed(base, "C18/prefix", i/80))
				// (length, position) pairs: (1,0) (2,0) (2,1) (3,0..2) (4,0..3) = 10
				t.Fixed, _ = json.Marshal(map[string]int{"lp": int(i/8) % 10, "kind": int(i % 8)})
				return t
			}},
	}
}

var c18Specs = []string{"xfx", "xfy", "yfx", "fy", "fx", "xf", "yf"}
var c18Pool = []string{"foo", "bar", "+++", "==>", "mod", "-", "*", "#"}
var c18Special = []string{"','", "'|'", "[]", "{}"}
var c18Prios = []int{0, 1, 200, 700, 999, 1000, 1001, 1050, 1200}

func c18Class(spec string) string {
	switch spec {
	case "xfx", "xfy", "yfx":
		return "infix"
	case "fy", "fx":
		return "prefix"
	case "xf", "yf":
		return "postfix"
	}
	return ""
}

type c18Op struct {
	Kind  string   `json:"kind"` // op | query | probe
	P     string   `json:"p"`
	S     string   `json:"s"`
	Names []string `json:"names,omitempty"` // element texts
	List  bool     `json:"list,omitempty"`
	Tail  string   `json:"tail,omitempty"` // "" proper list, "_" partial list, "x" improper
	N     string   `json:"n,omitempty"`
	Near  int      `json:"near,omitempty"`  // query: derived at run time from an entry of the current table (picked by this number) and perturbed
	Steps []c18Op  `json:"steps,omitempty"` // text: op directives and probe clauses ("clause": Shape, N, M) read by ONE parser in one Exec
	Shape string   `json:"shape,omitempty"`
	M     string   `json:"m,omitempty"`
}

var c18Shapes = []string{"chain", "mixed", "prefix", "postfix", "prefix-chain", "postfix-chain"}

type c18Table map[[2]string][2]string // (name, class) -> (priority, specifier)

func (t c18Table) clone() c18Table {
	c := c18Table{}
	for k, v := range t {
		c[k] = v
	}
	return c
}

func (t c18Table) dump() []string {
	var out []string
	for k, v := range t {
		out = append(out, fmt.Sprintf("%s %s %s", v[0], v[1], k[0]))
	}
	sort.Strings(out)
	return out
}

// c18Eval says whether op(P,S,Names) must raise ("yes"), must not ("no") or may do either ("either"), and the table afterwards.
func c18Eval(t c18Table, op c18Op) (string, c18Table) {
	p := -1
	if _, err := fmt.Sscanf(op.P, "%d", &p); err != nil || fmt.Sprint(p) != op.P || p < 0 || p > 1200 {
		return "yes", t
	}
	class := c18Class(op.S)
	if class == "" {
		return "yes", t
	}
	if op.Tail != "" {
		return "yes", t
	}
	nt := t.clone()
	either := false
	for _, n := range op.Names {
		name := c18Name(n)
		switch {
		case name == "":
			return "yes", t // not an atom
		case n == "','":
			return "yes", t
		case n == "[]" || n == "{}":
			return "yes", t
		case n == "'|'":
			if class != "infix" || (p > 0 && p < 1001) {
				return "yes", t
			}
		}
		other := ""
		switch class {
		case "infix":
			other = "postfix"
		case "postfix":
			other = "infix"
		}
		if other != "" {
			if _, ok := nt[[2]string{name, other}]; ok {
				if p > 0 {
					return "yes", t
				}
				either = true
			}
		}
		if p == 0 {
			delete(nt, [2]string{name, class})
		} else {
			nt[[2]string{name, class}] = [2]string{op.P, op.S}
		}
	}
	if either {
		return "either", nt
	}
	return "no", nt
}

// c18Name returns the atom name denoted by an element text, "" if it is not an atom.
func c18Name(el string) string {
	switch el {
	case "_", "1", "f(x)", "\"s\"", "1.5":
		return ""
	case "','":
		return ","
	case "'|'":
		return "|"
	}
	return el
}

func c18Gen(r *kit.Run) []c18Op {
	g := r.Tape.Lane("gen")
	var ops []c18Op
	n := 1 + g.Choose(25)
	genOp := func() c18Op {
		op := c18Op{Kind: "op"}
		op.P = fmt.Sprint(c18Prios[g.Choose(len(c18Prios))])
		if g.Choose(12) == 0 {
			op.P = []string{"-1", "1201", "foo", "_", "1.0"}[g.Choose(5)]
		}
		op.S = c18Specs[g.Choose(len(c18Specs))]
		if g.Choose(14) == 0 {
			op.S = []string{"foo", "1", "_", "xfz"}[g.Choose(4)]
		}
		name := func() string {
			if g.Choose(7) == 0 {
				return c18Special[g.Choose(len(c18Special))]
			}
			return c18Pool[g.Choose(len(c18Pool))]
		}
		if g.Choose(2) == 0 {
			op.Names = []string{name()}
			if g.Choose(14) == 0 {
				op.Names = []string{[]string{"_", "1", "f(x)"}[g.Choose(3)]}
			}
			return op
		}
		op.List = true
		k := 1 + g.Choose(4)
		for i := 0; i < k; i++ {
			op.Names = append(op.Names, name())
		}
		if g.Choose(5) == 0 {
			op.Names[g.Choose(k)] = []string{"_", "1", "f(x)", "\"s\"", "1.5"}[g.Choose(5)]
		}
		if g.Choose(20) == 0 {
			op.Tail = []string{"_", "x"}[g.Choose(2)]
		}
		return op
	}
	for i := 0; i < n; i++ {
		switch g.Weighted(6, 3, 1, 2) {
		case 3:
			// one text, one parser: directives that change the table alternate with clauses that are read under it
			tx := c18Op{Kind: "text"}
			last := ""
			for k, m := 0, 2+g.Choose(6); k < m; k++ {
				if g.Choose(2) == 0 {
					o := c18Op{Kind: "op", P: fmt.Sprint(c18Prios[g.Choose(len(c18Prios))]), S: c18Specs[g.Choose(len(c18Specs))]}
					o.Names = []string{c18Pool[g.Choose(len(c18Pool))]}
					if g.Choose(8) == 0 {
						o.Names = []string{"'|'"}
						o.S = []string{"xfx", "xfy", "yfx"}[g.Choose(3)]
						o.P = []string{"1001", "1050", "1200", "0"}[g.Choose(4)]
					}
					if g.Choose(3) == 0 {
						o.List = true
						o.Names = append([]string{c18Pool[g.Choose(len(c18Pool))]}, o.Names...)
					}
					last = o.Names[len(o.Names)-1]
					if last == "'|'" {
						last = "|" // in operator position the bar is written bare
					}
					tx.Steps = append(tx.Steps, o)
					continue
				}
				c := c18Op{Kind: "clause", Shape: c18Shapes[g.Choose(len(c18Shapes))], N: c18Pool[g.Choose(len(c18Pool))], M: c18Pool[g.Choose(len(c18Pool))]}
				if last != "" && g.Choose(3) > 0 {
					c.N = last // the name the preceding directive touched
				}
				if c.Shape == "mixed" && g.Choose(4) == 0 {
					c.M = "|" // the bar as an infix operator next to another one
					if g.Choose(2) == 0 {
						c.N, c.M = c.M, c.N
					}
				}
				tx.Steps = append(tx.Steps, c)
			}
			ops = append(ops, tx)
		case 0:
			ops = append(ops, genOp())
		case 1:
			if g.Choose(3) == 0 {
				ops = append(ops, c18Op{Kind: "query", P: "P", S: "S", N: "N", Near: 1 + g.Choose(100000)})
				continue
			}
			q := c18Op{Kind: "query", P: "P", S: "S", N: "N"}
			if g.Choose(2) == 0 {
				q.P = fmt.Sprint(c18Prios[1+g.Choose(len(c18Prios)-1)])
			}
			if g.Choose(2) == 0 {
				q.S = c18Specs[g.Choose(len(c18Specs))]
			}
			if g.Choose(2) == 0 {
				q.N = append(append([]string{}, c18Pool...), "','", "'|'", "=", ":-", "is")[g.Choose(len(c18Pool)+5)]
			}
			ops = append(ops, q)
		default:
			ops = append(ops, c18Op{Kind: "probe", N: c18Pool[g.Choose(len(c18Pool))]})
		}
	}
	if r.Tape.Fixed != nil {
		var f struct{ Lp, Kind int }
		if err := json.Unmarshal(r.Tape.Fixed, &f); err != nil {
			kit.Bug("c18 fixed: %v", err)
		}
		lps := [][2]int{{1, 0}, {2, 0}, {2, 1}, {3, 0}, {3, 1}, {3, 2}, {4, 0}, {4, 1}, {4, 2}, {4, 3}}
		lp := lps[f.Lp%10]
		op := c18Op{Kind: "op", List: true, P: fmt.Sprint(c18Prios[1+g.Choose(len(c18Prios)-1)]), S: c18Specs[g.Choose(len(c18Specs))]}
		for i := 0; i < lp[0]; i++ {
			op.Names = append(op.Names, c18Pool[g.Choose(len(c18Pool))])
		}
		bad := []string{"_", "1", "f(x)", "','", "[]", "{}", "'|'", "CONFLICT"}[f.Kind%8]
		if bad == "CONFLICT" {
			// a name that has an operator of the excluded class: define it first
			cl := c18Class(op.S)
			if cl == "prefix" {
				op.S = "xfx"
				cl = "infix"
			}
			pre := c18Op{Kind: "op", P: "300", Names: []string{"zzz"}}
			if cl == "infix" {
				pre.S = "xf"
			} else {
				pre.S = "yfx"
			}
			ops = append(ops, c18Op{Kind: "op", P: "0", S: "xfx", Names: []string{"zzz"}}, c18Op{Kind: "op", P: "0", S: "xf", Names: []string{"zzz"}}, pre)
			bad = "zzz"
		}
		if bad == "'|'" {
			op.S, op.P = "fy", "200" // '|' as a prefix operator is forbidden
		}
		op.Names[lp[1]] = bad
		ops = append(ops, op, c18Op{Kind: "query", P: "P", S: "S", N: "N"})
	}
	return ops
}

func (o c18Op) goal() string {
	switch o.Kind {
	case "op":
		names := o.Names[0]
		if o.List {
			names = "[" + strings.Join(o.Names, ", ")
			if o.Tail != "" {
				names += "|" + o.Tail
			}
			names += "]"
		}
		return fmt.Sprintf("op(%s, %s, %s)", o.P, o.S, names)
	case "query":
		return fmt.Sprintf("current_op(%s, %s, %s)", o.P, o.S, o.N)
	case "clause":
		switch o.Shape {
		case "chain":
			return fmt.Sprintf("1 %s 2 %s 3", o.N, o.N)
		case "mixed":
			return fmt.Sprintf("1 %s 2 %s 3", o.N, o.M)
		case "prefix":
			return fmt.Sprintf("%s (1)", o.N)
		case "postfix":
			return fmt.Sprintf("1 %s ", o.N)
		case "prefix-chain":
			return fmt.Sprintf("%s %s (1)", o.N, o.N)
		case "postfix-chain":
			return fmt.Sprintf("1 %s %s ", o.N, o.N)
		}
		kit.Bug("c18 shape %q", o.Shape)
	case "text":
		var sb strings.Builder
		for _, st := range o.Steps {
			if st.Kind == "op" {
				sb.WriteString(":- " + st.goal() + ". ")
			} else {
				sb.WriteString(st.goal() + ". ")
			}
		}
		return "text{" + sb.String() + "}"
	}
	return "probe(" + o.N + ")"
}

// c18Determinate returns what '1 N 2 M 3' denotes when N and M are infix operators whose priorities are two or more
// apart: the operator of lower priority is the argument of the other one, whatever the specifiers say ("" otherwise).
func c18Determinate(t c18Table, o c18Op) string {
	if o.Shape != "mixed" {
		return ""
	}
	vn, okn := t[[2]string{o.N, "infix"}]
	vm, okm := t[[2]string{o.M, "infix"}]
	if !okn || !okm {
		return ""
	}
	pn, pm := 0, 0
	fmt.Sscanf(vn[0], "%d", &pn)
	fmt.Sscanf(vm[0], "%d", &pm)
	f := func(n string, args ...string) string { return kit.AtomText(n) + "(" + strings.Join(args, ",") + ")" }
	switch {
	case pm-pn >= 2:
		return f(o.M, f(o.N, "1", "2"), "3")
	case pn-pm >= 2:
		return f(o.N, "1", f(o.M, "2", "3"))
	}
	return ""
}

// c18Readable says whether a probe clause can be read at all: every name it uses in operator position must have an
// operator of some class in the table (which term it then denotes, or whether priorities and specifiers make it a syntax
// error, is decided by the twin reader, see Exec).
func c18Readable(t c18Table, o c18Op) bool {
	has := func(n string) bool {
		for _, c := range []string{"prefix", "infix", "postfix"} {
			if _, ok := t[[2]string{n, c}]; ok {
				return true
			}
		}
		return false
	}
	if o.Shape == "mixed" {
		return has(o.N) && has(o.M)
	}
	return has(o.N)
}

func (c18) Exec(r *kit.Run) {
	ops := c18Gen(r)
	var texts []string
	for _, o := range ops {
		texts = append(texts, o.goal())
	}
	r.Out.Scenario = texts
	r.Out.ScenarioKey = strings.Join(texts, ";")

	out := &kit.SimWriter{Run: r}
	interp := prolog.New(strings.NewReader(""), out)
	_ = io.Discard
	// clauses of "text" steps are not stored: what the loader read is reported through note/1
	var notes []string
	interp.Register1(engine.NewAtom("note"), func(_ *engine.VM, t engine.Term, k engine.Cont, env *engine.Env) *engine.Promise {
		notes = append(notes, kit.CanonTerm(t, env, kit.NewRenamer()))
		return k(env)
	})
	if err := interp.Exec("term_expansion(T, (:- note(T))) :- T \\= (:- _)."); err != nil {
		kit.Bug("c18 prelude: %v", err)
	}
	// the twin receives the same history, but every term of a "text" step through a parser of its own (one Exec per term):
	// what a clause denotes under a given table is taken from there (a pure function of table and text, outside this
	// property), that a long-lived parser reads it the same way under the table in force is what is checked
	var twinNotes []string
	twin := prolog.New(strings.NewReader(""), io.Discard)
	twin.Register1(engine.NewAtom("note"), func(_ *engine.VM, t engine.Term, k engine.Cont, env *engine.Env) *engine.Promise {
		twinNotes = append(twinNotes, kit.CanonTerm(t, env, kit.NewRenamer()))
		return k(env)
	})
	if err := twin.Exec("term_expansion(T, (:- note(T))) :- T \\= (:- _)."); err != nil {
		kit.Bug("c18 prelude: %v", err)
	}

	dump := func(q string) ([]string, error) {
		sols, err := interp.Query(q + ".")
		if err != nil {
			return nil, err
		}
		defer sols.Close()
		var rows []string
		for sols.Next() {
			v := kit.NewVars()
			if err := sols.Scan(v); err != nil {
				return nil, err
			}
			rows = append(rows, v.String())
		}
		sort.Strings(rows)
		return rows, sols.Err()
	}
	table := func() []string {
		rows, err := dump("current_op(P, S, N)")
		if err != nil {
			kit.Bug("c18 dump: %v", err)
		}
		var outRows []string
		for _, row := range rows {
			// "N=foo P=700 S=xfx"
			var n, p, s string
			for _, f := range strings.SplitN(row, " P=", 2) {
				_ = f
			}
			i := strings.LastIndex(row, " P=")
			if i < 0 {
				kit.Bug("c18 row %q", row)
			}
			j := strings.LastIndex(row, " S=")
			n, p, s = row[2:i], row[i+3:j], row[j+3:]
			outRows = append(outRows, fmt.Sprintf("%s %s %s", p, s, unquote(n)))
		}
		sort.Strings(outRows)
		return outRows
	}

	// the model starts from whatever the interpreter reports
	model := c18Table{}
	for _, row := range table() {
		f := strings.SplitN(row, " ", 3)
		model[[2]string{f[2], c18Class(f[1])}] = [2]string{f[0], f[1]}
	}
	if len(model) < 20 {
		kit.Bug("c18: initial operator table has only %d entries", len(model))
	}

	failed, changed := 0, 0
	for i, o := range ops {
		switch o.Kind {
		case "op":
			before := table()
			must, next := c18Eval(model, o)
			err := interp.QuerySolution(o.goal() + ".").Err()
			if terr := twin.QuerySolution(o.goal() + ".").Err(); (terr != nil) != (err != nil) {
				kit.Bug("c18: %s returned %v on the interpreter and %v on its twin", o.goal(), err, terr)
			}
			after := table()
			r.Logf("%d %s -> %s", i, o.goal(), kit.CanonErr(err))
			sig := c18Sig(o)
			if err != nil {
				failed++
				r.Fault("failing-op/3")
				if !kit.SameList(before, after) {
					r.Fail("table-changed-on-error", "failed-op-changed-table:"+sig, "%s raised %s but changed the operator table: %s", o.goal(), kit.CanonErr(err), c18Diff(before, after))
					return
				}
				if must == "no" {
					r.Fail("valid-op-rejected", "valid-op-rejected:"+sig, "%s raised %s; by the ISO rules it is a valid update (history: %s)", o.goal(), kit.CanonErr(err), strings.Join(texts[:i], ", "))
					return
				}
				continue
			}
			if must == "yes" {
				r.Fail("invalid-op-accepted", "invalid-op-accepted:"+sig, "%s succeeded; by the ISO rules it must raise. table change: %s (history: %s)", o.goal(), c18Diff(before, after), strings.Join(texts[:i], ", "))
				return
			}
			if want := next.dump(); !kit.SameList(want, after) {
				r.Fail("table-mismatch", "table-differs-after-op:"+sig, "after %s the table differs from the ISO model: %s (history: %s)", o.goal(), c18Diff(want, after), strings.Join(texts[:i], ", "))
				return
			}
			if !kit.SameList(before, after) {
				changed++
			}
			model = next
		case "query":
			if o.Near > 0 {
				// a query next to an existing entry: all three arguments bound, one of them possibly off by a little
				rows := model.dump()
				f := strings.SplitN(rows[o.Near%len(rows)], " ", 3)
				o.P, o.S, o.N = f[0], f[1], kit.AtomText(f[2])
				if f[2] == "," || f[2] == "|" {
					o.N = "'" + f[2] + "'"
				}
				switch o.Near / 1000 % 5 {
				case 1: // another specifier of the same class
					for _, sp := range c18Specs {
						if sp != f[1] && c18Class(sp) == c18Class(f[1]) {
							o.S = sp
						}
					}
				case 2:
					o.P = fmt.Sprint(c18Prios[1+o.Near%(len(c18Prios)-1)])
				case 3:
					o.P = "P"
				case 4:
					o.S = "S"
				}
				texts[i] = o.goal()
			}
			rows, err := dump(o.goal())
			if err != nil {
				r.Fail("query-failed", "current_op-raised", "%s raised %s", o.goal(), kit.CanonErr(err))
				return
			}
			var want []string
			for k, v := range model {
				if (o.P == "P" || o.P == v[0]) && (o.S == "S" || o.S == v[1]) && (o.N == "N" || c18Name(o.N) == k[0]) {
					var parts []string
					if o.N == "N" {
						parts = append(parts, "N="+kit.AtomText(k[0]))
					}
					if o.P == "P" {
						parts = append(parts, "P="+v[0])
					}
					if o.S == "S" {
						parts = append(parts, "S="+v[1])
					}
					want = append(want, strings.Join(parts, " "))
				}
			}
			sort.Strings(want)
			r.Logf("%d %s -> %d answers", i, o.goal(), len(rows))
			if !kit.SameList(rows, want) {
				pat := fmt.Sprintf("%v%v%v", o.P != "P", o.S != "S", o.N != "N")
				r.Fail("answers-mismatch", "current_op-answers-differ:pattern="+pat, "%s answered %q, the model has %q (history: %s)", o.goal(), rows, want, strings.Join(texts[:i], ", "))
				return
			}
		case "probe":
			if !c18Probe(r, interp, out, model, o.N, texts[:i]) {
				return
			}
		case "text":
			// walk the steps with the model and the twin; the text ends with the first step that fails there
			var sb strings.Builder
			next := model.clone()
			mustFail := ""
			twinNotes = twinNotes[:0]
			for _, st := range o.Steps {
				if st.Kind == "op" {
					must, nt := c18Eval(next, st)
					if must == "either" {
						continue
					}
					sb.WriteString(":- " + st.goal() + ".\n")
					terr := twin.Exec(":- " + st.goal() + ".")
					if (terr != nil) != (must == "yes") {
						r.Fail("table-mismatch", "directive-op-outcome", "directive %s returned %s; by the ISO rules must it raise: %s (history: %s)", st.goal(), kit.CanonErr(terr), must, strings.Join(texts[:i], ", "))
						return
					}
					if must == "yes" {
						mustFail = st.goal()
						break
					}
					next = nt
					continue
				}
				sb.WriteString(st.goal() + ".\n")
				k := len(twinNotes)
				if terr := twin.Exec(st.goal() + "."); terr != nil {
					mustFail = st.goal()
					break
				}
				if len(twinNotes) != k+1 {
					kit.Bug("c18 twin: clause %s reported %v", st.goal(), twinNotes[k:])
				}
				if want := c18Determinate(next, st); want != "" && twinNotes[k] != want {
					r.Fail("read-uses-other-table", "clause-read-against-priorities:"+st.Shape, "%s was read as %s by a new parser; with the priorities the table has for %s and %s (two or more apart, so that associativity plays no part) it denotes %s (history: %s)", st.goal(), twinNotes[k], st.N, st.M, want, strings.Join(texts[:i], ", "))
					return
				}
				if !c18Readable(next, st) {
					r.Fail("read-uses-other-table", "clause-read-without-operator:"+st.Shape, "%s was read as %s by a new parser although the table has no operator for a name it uses as one (history: %s)", st.goal(), twinNotes[k], strings.Join(texts[:i], ", "))
					return
				}
			}
			texts[i] = "text{" + strings.ReplaceAll(sb.String(), "\n", " ") + "}"
			notes = notes[:0]
			err := interp.Exec(sb.String())
			r.Logf("%d %s -> %s; read: %v; twin: %v", i, texts[i], kit.CanonErr(err), notes, twinNotes)
			r.Probe("text-with-directives-and-clauses")
			hist := strings.Join(texts[:i+1], ", ")
			if !kit.SameList(notes, twinNotes) {
				r.Fail("read-uses-other-table", "text:clauses-read-differently-by-long-lived-parser", "the clauses of %s were read as %v; read one by one, each by a new parser under the table in force at that point, they are %v (history: %s)", texts[i], notes, twinNotes, hist)
				return
			}
			if (err != nil) != (mustFail != "") {
				r.Fail("read-uses-other-table", fmt.Sprintf("text:failed=%v", err != nil), "%s returned %s; read term by term it fails at: %q (history: %s)", texts[i], kit.CanonErr(err), mustFail, hist)
				return
			}
			if err != nil {
				failed++
				r.Fault("failing-step-in-text")
			}
			if after := table(); !kit.SameList(next.dump(), after) {
				r.Fail("table-mismatch", "table-differs-after-text", "after %s the table differs from the ISO model: %s (history: %s)", texts[i], c18Diff(next.dump(), after), hist)
				return
			}
			if len(next) != len(model) || !kit.SameList(next.dump(), model.dump()) {
				changed++
			}
			model = next
		}
	}
	// final probes for every pool name
	for _, n := range c18Pool {
		if !c18Probe(r, interp, out, model, n, texts) {
			return
		}
	}
	r.Out.NonTrivial = failed > 0 && changed > 0
}

func unquote(s string) string {
	if len(s) >= 2 && s[0] == '\'' && s[len(s)-1] == '\'' {
		return strings.NewReplacer(`\\`, `\`, `\'`, `'`).Replace(s[1 : len(s)-1])
	}
	return s
}

func c18Sig(o c18Op) string {
	kind := "single"
	if o.List {
		kind = fmt.Sprintf("list%d", len(o.Names))
	}
	return kind
}

func c18Diff(a, b []string) string {
	in := func(xs []string, x string) bool {
		for _, y := range xs {
			if y == x {
				return true
			}
		}
		return false
	}
	var d []string
	for _, x := range a {
		if !in(b, x) {
			d = append(d, "-("+x+")")
		}
	}
	for _, x := range b {
		if !in(a, x) {
			d = append(d, "+("+x+")")
		}
	}
	if len(d) == 0 {
		return "same entries, different multiplicity"
	}
	return strings.Join(d, " ")
}

// c18Probe checks that reading and writing use exactly the model's table for name n.
func c18Probe(r *kit.Run, interp *prolog.Interpreter, out *kit.SimWriter, model c18Table, n string, history []string) bool {
	has := func(class string) bool { _, ok := model[[2]string{n, class}]; return ok }
	type probe struct {
		class string
		text  string
		want  string
	}
	probes := []probe{
		{"infix", fmt.Sprintf("X = (a %s b)", n), fmt.Sprintf("X=%s(a,b)", n)},
		{"prefix", fmt.Sprintf("X = (%s a)", n), fmt.Sprintf("X=%s(a)", n)},
		{"postfix", fmt.Sprintf("X = (a %s)", n), fmt.Sprintf("X=%s(a)", n)},
	}
	for _, p := range probes {
		sol := interp.QuerySolution(p.text + ".")
		err := sol.Err()
		parsed := err == nil
		if parsed {
			v := kit.NewVars()
			sol.Scan(v)
			if v.String() != p.want {
				r.Fail("read-uses-other-table", "read-probe-structure:"+p.class, "%s parsed as %s, expected %s (history: %s)", p.text, v.String(), p.want, strings.Join(history, ", "))
				return false
			}
		}
		if parsed != has(p.class) {
			r.Fail("read-uses-other-table", fmt.Sprintf("read-probe:%s:parsed=%v", p.class, parsed), "%s parsed=%v (err %v) but the table has %s operator %s: %v (history: %s)", p.text, parsed, err, p.class, n, has(p.class), strings.Join(history, ", "))
			return false
		}
	}
	// write probes
	wr := func(goal string) string {
		a := len(out.Sink)
		if err := interp.QuerySolution(goal + ".").Err(); err != nil {
			kit.Bug("c18 write probe %s: %v", goal, err)
		}
		return string(out.Sink[a:])
	}
	q := kit.AtomText(n)
	for _, w := range []struct {
		term    string
		classes []string
	}{{fmt.Sprintf("%s(a, b)", q), []string{"infix"}}, {fmt.Sprintf("%s(a)", q), []string{"prefix", "postfix"}}} {
		asOp := wr("writeq("+w.term+")") != wr("write_canonical("+w.term+")")
		want := false
		for _, c := range w.classes {
			want = want || has(c)
		}
		if asOp != want {
			r.Fail("write-uses-other-table", fmt.Sprintf("write-probe:%s:as-operator=%v", w.classes[0], asOp), "writeq(%s) printed in operator notation: %v, but the table has such an operator: %v (history: %s)", w.term, asOp, want, strings.Join(history, ", "))
			return false
		}
	}
	// what writeq prints for a nested infix term under this table, read under this table, is that term again: the writer
	// brackets by the priority and specifier the table has now, the reader reads by them
	if has("infix") {
		for _, t := range []string{fmt.Sprintf("%s(%s(1, 2), 3)", q, q), fmt.Sprintf("%s(1, %s(2, 3))", q, q)} {
			text := wr("writeq(" + t + ")")
			if err := interp.QuerySolution("X = (" + text + "), X == " + t + ".").Err(); err != nil {
				r.Fail("write-uses-other-table", "write-read-round-trip:infix", "writeq(%s) printed %q, which read back under the same table is not that term: %s (history: %s)", t, text, kit.CanonErr(err), strings.Join(history, ", "))
				return false
			}
		}
	}
	return true
}
