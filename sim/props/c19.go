package props

import (
	"encoding/json"
	"errors"
	"fmt"
	"io"
	"os"
	"path/filepath"
	"strings"
	"time"
	"unicode/utf8"

	"verif/sim/kit"

	"github.com/ichiban/prolog"
	"github.com/ichiban/prolog/engine"
)

// ---------------------------------------------------------------------------
// C19 — a stream is one forward cursor
// ---------------------------------------------------------------------------

type c19 struct{}

func init() { Register(c19{}) }

func (c19) ID() string { return "C19" }

func (c19) Meta() kit.Meta {
	return kit.Meta{
		Level: "exploration",
		Rule: "a case = (generated source: terms with known byte extents separated by layout / %-comments / block comments, ASCII and 2-4 byte UTF-8, with or without trailing layout, one case in eight ending in a term without its end token, optionally 5-9 KB; or random bytes for binary streams) x (stream configuration: user_input, host text/binary stream, host stream with Stat size, file opened by open/4 with each eof_action and type) x (device behaviour: chunk profile incl. cuts inside UTF-8 sequences, EOF with data / after data, empty reads, more input after end of file, transient / dead read errors) x (history of <= 25 operations get_char/peek_char/get_code/peek_code/get_byte/peek_byte/read/read_term/at_end_of_stream/stream_property position+end_of_stream/skip-n/feed) x (delivery: one query per operation under the cooperative scheduler, conjunction of direct stream built-ins in one query, conjunction of the arity-1 wrappers) ; output cases = put_char/nl/write/writeq/write_canonical/put_byte/flush_output on two simulated sinks with failing / short writes. " +
			"distinct = distinct (source, configuration, history, delivery, schedule). non-trivial = at least one change of operation kind (peek->get, read_term->get_char, ...) and at least one chunk boundary inside an operation (input) or at least 3 writes on 2 streams (output).",
		Assumptions: []string{
			"cursor model: byte offset + end-of-stream state; read_term leaves the cursor immediately after the end token; peeks return what the next get returns and change nothing; position = bytes consumed",
			"end_of_stream: must be 'not' while input remains, 'past' once end_of_file was delivered (until a reset); 'not' or 'at' otherwise",
			"transient read errors are injected only at rune boundaries (bufio turns an error inside a sequence into U+FFFD, Go's documented behaviour); under read faults an operation may fail without consuming, never deliver wrong data; read_term is not generated under read faults",
			"open/4 cannot be given a simulated disk (openFile returns *os.File): that configuration uses a real run-private temporary file, chunking is the kernel's",
			"renderings of write/writeq/write_canonical are taken from a fault-free run of the same goal on a separate interpreter",
		},
		Real: []string{"engine.Stream (bufio, position, end-of-stream bookkeeping)", "GetChar/PeekChar/GetByte/PeekByte/ReadTerm/StreamProperty/PutChar/PutByte/WriteTerm/FlushOutput", "lexer and parser under read_term", "bootstrap.pl wrappers", "query goroutines (mode Q)", "os files for open/4"},
		Stub: []string{"host readers and writers (SimReader, SimWriter)", "goroutine scheduling in mode Q (cooperative scheduler)"},
	}
}

func (c19) Phases() []kit.Phase {
	return []kit.Phase{{Name: "sampled", Count: func(tier string) uint64 {
		if tier == "thorough" {
			return 1500000
		}
		return 30000
	}}}
}

// ---- source ----

type c19Item struct {
	Text  string `json:"text"`
	Canon string `json:"canon"`
}

var c19Pool = []c19Item{
	{"foo.", "foo"}, {"bar.", "bar"}, {"a.", "a"}, {"42.", "42"}, {"0.", "0"}, {"[].", "[]"},
	{"f(a,b).", "f(a,b)"}, {"g(X).", "g(_A)"}, {"h(X,Y,X).", "h(_A,_B,_A)"}, {"[1,2,3].", "[1,2,3]"},
	{"'hello world'.", "'hello world'"}, {"'a.b'.", "'a.b'"}, {"'x. y'.", "'x. y'"}, {"1.5.", "1.5"},
	{"a+b.", "+(a,b)"}, {"p:-q.", ":-(p,q)"}, {"- a.", "-(a)"}, {"0'a.", "97"}, {"\"ab\".", "[a,b]"},
	{"'été'.", "'été'"}, {"'日本'.", "'日本'"}, {"f('\U00020000').", "f('\U00020000')"},
	{"{a}.", "{}(a)"}, {"[a|T].", "[a|_A]"}, {"f( a , b ).", "f(a,b)"}, {"foo:bar.", ":(foo,bar)"},
	{"X.", "_A"}, {"'%'.", "'%'"}, {"a/*c*/.", "a"}, {"t(\n1).", "t(1)"},
}

var c19WS = []string{" ", "\n", "\t", "  ", " \n", "\r\n"}
var c19LineComments = []string{"% c\n", "%\n", "% end. here\n", "%% é日\n", "% 'q\n", "% \uFFFD!\n"}
var c19BlockComments = []string{"/* c */", "/**/", "/* a. b */", "/* é % */", "/*\n*/", "/*\uFFFD*/"}

type c19Source struct {
	Bytes []byte
	// clean[i]: a read_term may start at byte offset i with a predictable result
	clean []bool
	// items: extents [start,end) of each term incl. its end token, and its canonical form
	items []struct {
		start, end int
		canon      string
	}
}

// c19Tails are beginnings of a term that the end of the text cuts.
var c19Tails = []string{"b", "foo(a", "'bc", "[1, 2", "X =", "\"ab", "0'", "f(x) :- g", "- 1"}

func c19GenSource(g *kit.Lane, big bool) *c19Source {
	s := &c19Source{}
	var sb []byte
	mark := map[int]bool{}
	gap := func(first bool) {
		// first piece after an end token must be layout or a line comment
		n := 1 + g.Choose(3)
		for i := 0; i < n; i++ {
			k := g.Weighted(6, 2, 2)
			if i == 0 && first && k == 2 {
				k = 0
			}
			switch k {
			case 0:
				w := c19WS[g.Choose(len(c19WS))]
				for j := range w {
					mark[len(sb)+j] = true
				}
				sb = append(sb, w...)
			case 1:
				mark[len(sb)] = true
				sb = append(sb, c19LineComments[g.Choose(len(c19LineComments))]...)
			case 2:
				mark[len(sb)] = true
				sb = append(sb, c19BlockComments[g.Choose(len(c19BlockComments))]...)
			}
		}
	}
	nItems := g.Choose(6)
	if big {
		nItems = 600 + g.Choose(400)
	}
	if g.Choose(3) == 0 {
		gap(false)
	}
	for i := 0; i < nItems; i++ {
		it := c19Pool[g.Choose(len(c19Pool))]
		mark[len(sb)] = true
		start := len(sb)
		sb = append(sb, it.Text...)
		s.items = append(s.items, struct {
			start, end int
			canon      string
		}{start, len(sb), it.Canon})
		mark[len(sb)] = true
		if i < nItems-1 || g.Choose(2) == 0 {
			gap(true)
		}
	}
	if !big && g.Choose(8) == 0 {
		// a last term without its end token (the text ends inside the term): its extent reaches past the bytes
		if nItems > 0 && !mark[len(sb)-1] {
			sb = append(sb, ' ')
			mark[len(sb)-1] = true
		}
		tail := c19Tails[g.Choose(len(c19Tails))]
		mark[len(sb)] = true
		s.items = append(s.items, struct {
			start, end int
			canon      string
		}{len(sb), len(sb) + len(tail) + 1, ""})
		sb = append(sb, tail...)
	} else {
		mark[len(sb)] = true
	}
	s.Bytes = sb
	s.clean = make([]bool, len(sb)+1)
	for k := range mark {
		s.clean[k] = true
	}
	return s
}

// ---- scenario ----

type c19Op struct {
	Op  string `json:"op"`
	N   int    `json:"n,omitempty"` // skip count
	Seg int    `json:"seg"`         // segment (query) this op belongs to
}

type c19Scenario struct {
	Kind      string   `json:"kind"`   // input | output
	Config    string   `json:"config"` // user_input | host | host-stat | file
	Type      string   `json:"type"`   // text | binary
	EOFAction string   `json:"eof_action"`
	Source    string   `json:"source"`
	Segs      []int    `json:"segments,omitempty"`
	Device    string   `json:"device"`
	Faults    string   `json:"faults"`
	Policy    int      `json:"policy"`
	Modes     []string `json:"modes"` // per segment: Q | D | W
	Ops       []c19Op  `json:"ops"`
	Out       []string `json:"out_ops,omitempty"`
}

// ---- cursor model ----

type c19Model struct {
	src    *c19Source
	text   bool
	eof    string // error | eof_code | reset
	avail  int    // end of what the device has made available
	segs   []int
	seg    int
	pos    int
	past   bool
	fed    bool // a feed happened and no read since: end_of_stream is not asserted
	desync bool
}

type c19Exp struct {
	val   string // expected canonical value ("" = not asserted)
	alt   string // second acceptable value
	err   string // expected error prefix ("" = no error)
	unk   bool   // nothing is asserted about this op
	moved bool   // the op consumes input
	fail  bool   // the op must fail (no answer, no error): a peek whose bound argument is not what comes next
	cut   bool   // with unk: the term to read has begun but the input ends inside it: anything but end_of_file (which would drop what was consumed)
}

func (m *c19Model) runeAt(p int) (string, int) {
	r, n := utf8.DecodeRune(m.src.Bytes[p:m.avail])
	return string(r), n
}

const c19PastErr = "error(permission_error(input,past_end_of_stream,"

// pastCheck handles an operation that starts in state past. It returns (exp, handled).
func (m *c19Model) pastCheck(eofVal string, consume bool) (c19Exp, bool) {
	if !m.past {
		return c19Exp{}, false
	}
	switch m.eof {
	case "error":
		return c19Exp{err: c19PastErr}, true
	case "eof_code":
		if m.pos < m.avail {
			// more input became available after the end of file was delivered: only reset streams are fed
			return c19Exp{unk: true}, true
		}
		return c19Exp{val: eofVal}, true
	}
	// reset: another attempt is made
	if consume {
		m.past = false
	}
	return c19Exp{}, false
}

// step returns what the model expects from op and advances the model.
func (m *c19Model) step(op c19Op) c19Exp {
	if m.desync {
		return c19Exp{unk: true}
	}
	if strings.HasPrefix(op.Op, "mismatch:") {
		if m.past {
			// in state past the eof_action decides first, as for the plain peek (a reset stream makes another attempt and
			// may not say past afterwards); the outcome of this variant is not asserted then
			base := op
			base.Op = op.Op[9:]
			m.step(base)
			return c19Exp{unk: true}
		}
		if m.text && m.pos < m.avail {
			if r, _ := utf8.DecodeRune(m.src.Bytes[m.pos:m.avail]); r == utf8.RuneError {
				return c19Exp{err: "error(representation_error(character)"}
			}
		}
		return c19Exp{fail: true}
	}
	if strings.HasPrefix(op.Op, "eofarg:") {
		// the argument is bound to end_of_file / -1: an ordinary read or peek whose result is then unified with it
		base := op
		base.Op = op.Op[7:]
		if m.past {
			m.step(base) // the eof_action decides first, as for the plain operation; the outcome of this variant is not asserted then
			return c19Exp{unk: true}
		}
		e := m.step(base)
		eofVal := "end_of_file"
		if strings.HasSuffix(base.Op, "byte") {
			eofVal = "-1"
		}
		if e.unk || e.err != "" || e.val == eofVal {
			return e
		}
		return c19Exp{fail: true, moved: e.moved}
	}
	if strings.HasPrefix(op.Op, "wrong:") {
		if m.past && m.eof == "reset" {
			// a reset stream that is past makes its "other attempt" before it looks at the kind of operation: whether it
			// still says past afterwards is not asserted (the statement does not list refused operations)
			m.fed = true
		}
		return c19Exp{err: "error(permission_error(input,"}
	}
	switch op.Op {
	case "feed":
		if m.seg < len(m.segs)-1 {
			m.seg++
			m.avail = m.segs[m.seg]
			m.fed = true
		}
		return c19Exp{unk: true}
	case "get_char", "get_code", "peek_char", "peek_code", "get_byte", "peek_byte":
		peek := strings.HasPrefix(op.Op, "peek")
		eofVal := "end_of_file"
		if !strings.HasSuffix(op.Op, "char") {
			eofVal = "-1"
		}
		wasPast := m.past
		if e, ok := m.pastCheck(eofVal, !peek); ok {
			return e
		}
		m.fed = false
		if m.pos >= m.avail {
			if !peek {
				m.past = true
			} else if wasPast {
				// a peek in state past on a reset stream makes another attempt; whether the stream is past afterwards is not asserted
				m.fed = true
			}
			return c19Exp{val: eofVal}
		}
		if m.text {
			if r, _ := utf8.DecodeRune(m.src.Bytes[m.pos:m.avail]); r == utf8.RuneError {
				// U+FFFD (or invalid UTF-8) cannot be represented as a character: the operation raises. A peek leaves the
				// cursor where it is; what a get has consumed when it raises is not asserted (the history stops there)
				if !peek {
					m.desync = true
				}
				return c19Exp{err: "error(representation_error(character)"}
			}
		}
		var v string
		n := 1
		switch {
		case strings.HasSuffix(op.Op, "byte"):
			v = fmt.Sprint(m.src.Bytes[m.pos])
		case strings.HasSuffix(op.Op, "char"):
			var r string
			r, n = m.runeAt(m.pos)
			v = kit.AtomText(r)
		default:
			var r string
			r, n = m.runeAt(m.pos)
			v = fmt.Sprint([]rune(r)[0])
		}
		if !peek {
			m.pos += n
		}
		return c19Exp{val: v, moved: !peek}
	case "skip":
		// N get_char / get_byte in a row; reports the last one. Generated only when N units remain.
		m.fed = false
		if e, ok := m.pastCheck("", true); ok {
			e.unk = true
			return e
		}
		var v string
		for i := 0; i < op.N; i++ {
			if m.pos >= m.avail {
				m.desync = true
				return c19Exp{unk: true}
			}
			if m.text {
				r, n := m.runeAt(m.pos)
				if r == "\uFFFD" {
					m.desync = true
					return c19Exp{unk: true}
				}
				v = kit.AtomText(r)
				m.pos += n
			} else {
				v = fmt.Sprint(m.src.Bytes[m.pos])
				m.pos++
			}
		}
		return c19Exp{val: v, moved: true}
	case "read", "read_term":
		if e, ok := m.pastCheck("end_of_file", true); ok {
			return e
		}
		m.fed = false
		if m.pos > m.avail || !m.src.clean[m.pos] {
			m.desync = true
			return c19Exp{unk: true}
		}
		// next item at or after pos
		for _, it := range m.src.items {
			if it.start >= m.pos {
				if it.end > m.avail {
					// the term is cut by the current end of input: syntax error or a different term; which one is not
					// modelled, but when the term has begun before the end the answer cannot be end_of_file
					m.desync = true
					return c19Exp{unk: true, cut: it.start < m.avail}
				}
				m.pos = it.end
				return c19Exp{val: it.canon, moved: true}
			}
		}
		if m.avail < len(m.src.Bytes) {
			// only layout up to the current end of input; more segments exist: a comment may be cut
			for _, s := range m.segs {
				if s == m.avail && !m.src.clean[s] {
					m.desync = true
					return c19Exp{unk: true}
				}
			}
		}
		m.pos = m.avail
		m.past = true
		return c19Exp{val: "end_of_file", moved: true}
	case "position":
		return c19Exp{val: fmt.Sprint(m.pos)}
	case "end_of_stream", "at_end":
		t := func(e string) string {
			if op.Op == "at_end" {
				if e == "not" {
					return "false"
				}
				return "true"
			}
			return e
		}
		switch {
		case m.fed:
			return c19Exp{unk: true}
		case m.pos < m.avail:
			return c19Exp{val: t("not")}
		case m.past:
			return c19Exp{val: t("past")}
		default:
			return c19Exp{val: t("not"), alt: t("at")}
		}
	}
	kit.Bug("c19: unknown op %q", op.Op)
	return c19Exp{}
}

// ---- generation ----

func c19Gen(r *kit.Run) (*c19Scenario, *c19Source) {
	g := r.Tape.Lane("gen")
	sc := &c19Scenario{Kind: "input"}
	if g.Choose(6) == 5 {
		sc.Kind = "output"
		c19GenOutput(g, sc)
		return sc, nil
	}
	sc.Policy = g.Choose(kit.NumPolicies)
	sc.Config = []string{"host", "user_input", "host-stat", "file"}[g.Weighted(4, 3, 2, 3)]
	sc.Type = "text"
	if sc.Config != "user_input" && g.Choose(4) == 0 {
		sc.Type = "binary"
	}
	sc.EOFAction = "reset"
	if sc.Config == "file" {
		sc.EOFAction = []string{"eof_code", "error", "reset"}[g.Choose(3)]
	}
	big := sc.Type == "text" && g.Choose(25) == 0
	var src *c19Source
	if sc.Type == "text" {
		src = c19GenSource(g, big)
	} else {
		n := g.Choose(40)
		if g.Choose(25) == 0 {
			n = 5000 + g.Choose(4000)
		}
		b := make([]byte, n)
		for i := range b {
			b[i] = byte(g.Choose(256))
			if b[i] == 7 {
				b[i] = 8 // 7 is reserved for "a byte that does not come next"
			}
		}
		src = &c19Source{Bytes: b, clean: make([]bool, n+1)}
	}
	sc.Source = string(src.Bytes)
	if len(sc.Source) > 300 {
		sc.Source = sc.Source[:300] + fmt.Sprintf("...(%d bytes)", len(src.Bytes))
	}
	// device
	dev := g.Choose(kit.NumChunkProfiles)
	sc.Device = []string{"full", "small", "byte"}[dev]
	if g.Choose(2) == 1 {
		sc.Device += "+eof-with-data"
	}
	if g.Choose(3) == 2 {
		sc.Device += "+empty-reads"
	}
	// segments (more input after end of file): reset streams on simulated devices only
	sc.Segs = []int{len(src.Bytes)}
	if sc.Config != "file" && len(src.Bytes) > 0 && !big && g.Choose(4) == 0 {
		cut := g.Choose(len(src.Bytes) + 1)
		if sc.Type == "text" {
			for cut < len(src.Bytes) && !utf8.RuneStart(src.Bytes[cut]) {
				cut++
			}
		}
		sc.Segs = []int{cut, len(src.Bytes)}
	}
	sc.Faults = "none"
	if sc.Config != "file" && g.Choose(5) == 0 {
		sc.Faults = []string{"transient", "dead"}[g.Weighted(3, 1)]
	}

	// history, model driven
	m := &c19Model{src: src, text: sc.Type == "text", eof: sc.EOFAction, segs: sc.Segs, avail: sc.Segs[0]}
	nOps := 1 + g.Choose(25)
	seg := 0
	segLeft := 0
	newSeg := func() {
		mode := []string{"Q", "D", "W"}[g.Weighted(4, 4, 2)]
		sc.Modes = append(sc.Modes, mode)
		segLeft = 1
		if mode != "Q" {
			segLeft = 1 + g.Choose(6)
		}
	}
	newSeg()
	last := ""
	for i := 0; i < nOps; i++ {
		if segLeft == 0 {
			seg++
			newSeg()
		}
		var op c19Op
		op.Seg = seg
		cleanHere := m.pos <= m.avail && m.pos < len(src.clean) && src.clean[m.pos] && !m.desync
		var choices []string
		if sc.Type == "text" {
			choices = []string{"get_char", "peek_char", "get_char", "peek_char", "get_code", "peek_code", "position", "end_of_stream", "at_end"}
			if cleanHere && sc.Faults == "none" {
				choices = append(choices, "read", "read_term", "read", "read_term", "read")
			}
		} else {
			choices = []string{"get_byte", "peek_byte", "get_byte", "peek_byte", "position", "end_of_stream", "at_end"}
		}
		if len(sc.Segs) > 1 && m.seg < len(sc.Segs)-1 && m.pos >= m.avail && g.Choose(3) == 0 {
			choices = []string{"feed"}
		}
		if big || len(src.Bytes) > 4500 {
			choices = append(choices, "skip", "skip", "skip")
		}
		op.Op = choices[g.Choose(len(choices))]
		if g.Choose(20) == 0 && (strings.HasPrefix(op.Op, "peek_char") || strings.HasPrefix(op.Op, "peek_byte")) {
			op.Op = "mismatch:" + op.Op // the argument is bound to something that does not come next: fails, consumes nothing
		} else if g.Choose(20) == 0 && (op.Op == "get_char" || op.Op == "peek_char" || op.Op == "get_byte" || op.Op == "peek_byte") {
			op.Op = "eofarg:" + op.Op // the usual test for the end: get_char(S, end_of_file), peek_byte(S, -1)
		}
		if g.Choose(25) == 0 {
			// an operation of the other stream type: it must be refused and leave the cursor and the end-of-stream state alone
			if sc.Type == "text" {
				op.Op = []string{"wrong:get_byte", "wrong:peek_byte"}[g.Choose(2)]
			} else {
				op.Op = []string{"wrong:get_char", "wrong:peek_char"}[g.Choose(2)]
			}
		}
		// bias towards changes of kind after a read/peek
		if (strings.HasPrefix(last, "read") || strings.HasPrefix(last, "peek")) && g.Choose(2) == 0 {
			if sc.Type == "text" {
				op.Op = "get_char"
			} else {
				op.Op = "get_byte"
			}
		}
		if op.Op == "skip" {
			// skip to a clean position some way ahead (text) or any distance (binary)
			target := m.pos + 1000 + g.Choose(3500)
			if target > m.avail {
				target = m.avail
			}
			if sc.Type == "text" {
				for target < m.avail && !src.clean[target] {
					target++
				}
				op.N = utf8.RuneCount(src.Bytes[m.pos:target])
			} else {
				op.N = target - m.pos
			}
			if op.N == 0 || m.past {
				op.Op = "position"
			}
		}
		if op.Op == "feed" {
			// a feed is not a query: it gets a segment of its own
			if segLeft != 0 && (len(sc.Ops) > 0 && sc.Ops[len(sc.Ops)-1].Seg == seg) {
				seg++
				sc.Modes = append(sc.Modes, "Q")
			} else {
				sc.Modes[len(sc.Modes)-1] = "Q"
			}
			op.Seg = seg
			segLeft = 1
		}
		e := m.step(op)
		sc.Ops = append(sc.Ops, op)
		last = op.Op
		segLeft--
		if e.err != "" || e.unk && op.Op != "feed" && op.Op != "end_of_stream" && op.Op != "at_end" {
			segLeft = 0 // an error ends the query; after a desync nothing is asserted anyway
		}
		if m.desync {
			break
		}
	}
	return sc, src
}

// ---- execution ----

func c19OpText(op c19Op, mode string, v string, text bool) string {
	s := "S"
	if strings.HasPrefix(op.Op, "wrong:") {
		if mode == "W" {
			return fmt.Sprintf("%s(%s)", op.Op[6:], v)
		}
		return fmt.Sprintf("%s(%s, %s)", op.Op[6:], s, v)
	}
	if strings.HasPrefix(op.Op, "eofarg:") {
		arg := "end_of_file"
		if strings.HasSuffix(op.Op, "byte") {
			arg = "-1"
		}
		if mode == "W" {
			return fmt.Sprintf("%s = %s, %s(%s)", v, arg, op.Op[7:], v)
		}
		return fmt.Sprintf("%s = %s, %s(%s, %s)", v, arg, op.Op[7:], s, v)
	}
	if strings.HasPrefix(op.Op, "mismatch:") {
		// a character / byte that never occurs in generated sources
		arg := "'ж'"
		if strings.HasSuffix(op.Op, "byte") {
			arg = "7" // binary sources are generated without the byte 7 when this variant is used
		}
		if mode == "W" {
			return fmt.Sprintf("%s = %s, %s(%s)", v, arg, op.Op[9:], v)
		}
		return fmt.Sprintf("%s = %s, %s(%s, %s)", v, arg, op.Op[9:], s, v)
	}
	switch op.Op {
	case "get_char", "peek_char", "get_code", "peek_code", "get_byte", "peek_byte", "read":
		if mode == "W" {
			return fmt.Sprintf("%s(%s)", op.Op, v)
		}
		return fmt.Sprintf("%s(%s, %s)", op.Op, s, v)
	case "read_term":
		if mode == "W" {
			return fmt.Sprintf("read_term(%s, [])", v)
		}
		return fmt.Sprintf("read_term(%s, %s, [])", s, v)
	case "skip":
		g := "get_char"
		if !text {
			g = "get_byte"
		}
		if mode == "W" {
			return fmt.Sprintf("length(L%s, %d), maplist(%s, L%s), nth1(%d, L%s, %s)", v, op.N, g, v, op.N, v, v)
		}
		return fmt.Sprintf("length(L%s, %d), maplist(%s(%s), L%s), nth1(%d, L%s, %s)", v, op.N, g, s, v, op.N, v, v)
	case "position":
		return fmt.Sprintf("stream_property(%s, position(%s))", s, v)
	case "end_of_stream":
		return fmt.Sprintf("stream_property(%s, end_of_stream(%s))", s, v)
	case "at_end":
		if mode == "W" {
			return fmt.Sprintf("(at_end_of_stream -> %s = true ; %s = false)", v, v)
		}
		return fmt.Sprintf("(at_end_of_stream(%s) -> %s = true ; %s = false)", s, v, v)
	}
	kit.Bug("c19: op text for %q", op.Op)
	return ""
}

func (c19) Exec(r *kit.Run) {
	sc, src := c19Gen(r)
	r.Out.Scenario = sc
	if sc.Kind == "output" {
		c19ExecOutput(r, sc)
		return
	}
	text := sc.Type == "text"

	cfg := kit.ReaderConfig{EOFWithData: strings.Contains(sc.Device, "eof-with-data"), EmptyReads: strings.Contains(sc.Device, "empty-reads")}
	switch {
	case strings.HasPrefix(sc.Device, "small"):
		cfg.Profile = kit.ChunkSmall
	case strings.HasPrefix(sc.Device, "byte"):
		cfg.Profile = kit.ChunkByte
	}
	lane := r.Tape.Lane("dev:in")
	switch sc.Faults {
	case "transient":
		cfg.Transient = true
	case "dead":
		cfg.DeadAt = 1 + lane.Choose(len(src.Bytes)+1)
	}
	dev := &kit.SimReader{Src: src.Bytes, Segs: sc.Segs, Cfg: cfg, Lane: lane, Run: r}
	if text {
		dev.Boundary = func(off int) bool { return off >= len(src.Bytes) || utf8.RuneStart(src.Bytes[off]) }
	}

	var tmpDir string
	defer func() {
		if tmpDir != "" {
			os.RemoveAll(tmpDir)
		}
	}()

	sched := kit.NewSched(r, sc.Policy)
	sched.Trace = true
	model := &c19Model{src: src, text: text, eof: sc.EOFAction, segs: sc.Segs, avail: sc.Segs[0]}
	var status string
	lastKind := ""
	changes := 0

	leftover, other := kit.Bubble(r.T, func() {
		var in io.Reader = strings.NewReader("")
		if sc.Config == "user_input" {
			in = dev
		}
		interp := prolog.New(in, io.Discard)
		var hostStream *engine.Stream
		switch sc.Config {
		case "host", "host-stat":
			var rd io.Reader = dev
			if sc.Config == "host-stat" {
				rd = statReader{dev}
			}
			if text {
				hostStream = engine.NewInputTextStream(rd)
			} else {
				hostStream = engine.NewInputBinaryStream(rd)
			}
		case "file":
			d, err := os.MkdirTemp("", "verif-c19-")
			if err != nil {
				kit.Bug("c19 tempdir: %v", err)
			}
			tmpDir = d
			if err := os.WriteFile(filepath.Join(d, "src.txt"), src.Bytes, 0o644); err != nil {
				kit.Bug("c19 write temp file: %v", err)
			}
		}
		interp.Register1(engine.NewAtom("sim_stream"), func(vm *engine.VM, s engine.Term, k engine.Cont, env *engine.Env) *engine.Promise {
			return engine.Unify(vm, s, hostStream, k, env)
		})
		var obs []string
		interp.Register2(engine.NewAtom("obs"), func(_ *engine.VM, i, v engine.Term, k engine.Cont, env *engine.Env) *engine.Promise {
			obs = append(obs, kit.CanonTerm(v, env, kit.NewRenamer()))
			return k(env)
		})
		if sc.Config == "file" {
			q := fmt.Sprintf("open('%s', read, _, [alias(f), eof_action(%s), type(%s)]).", filepath.Join(tmpDir, "src.txt"), sc.EOFAction, sc.Type)
			if err := interp.QuerySolution(q).Err(); err != nil {
				kit.Bug("c19 open/4: %v", err)
			}
		}
		kit.Settle()
		prolog.SimYield = sched.Yield
		defer func() { prolog.SimYield = nil }()

		sched.Go(func() {
			defer func() {
				if sc.Config == "file" {
					interp.QuerySolution("close(f).")
				}
			}()
			streamGoal := map[string]string{"host": "sim_stream(S)", "host-stat": "sim_stream(S)", "user_input": "current_input(S)", "file": "stream_property(S, alias(f))"}[sc.Config]
			inputSet := sc.Config == "user_input"
			i := 0
			for i < len(sc.Ops) && !r.Failed() && !model.desync {
				seg := sc.Ops[i].Seg
				j := i
				for j < len(sc.Ops) && sc.Ops[j].Seg == seg {
					j++
				}
				ops := sc.Ops[i:j]
				mode := sc.Modes[seg]
				i = j
				if ops[0].Op == "feed" {
					sched.UserYield("U:feed")
					dev.Feed()
					model.step(ops[0])
					r.Logf("feed: more input available up to %d", model.avail)
					continue
				}
				if mode == "W" && !inputSet {
					if err := interp.QuerySolution(streamGoal + ", set_input(S).").Err(); err != nil {
						kit.Bug("c19 set_input: %v", err)
					}
					inputSet = true
				}
				// build the query
				var goals []string
				goals = append(goals, streamGoal)
				for n, op := range ops {
					v := fmt.Sprintf("V%d", n)
					goals = append(goals, c19OpText(op, mode, v, text), fmt.Sprintf("obs(%d, %s)", n, v))
				}
				q := strings.Join(goals, ", ") + "."
				obs = obs[:0]
				faultsBefore := r.Out.Faults["read-transient"] + r.Out.Faults["read-dead"]
				sched.UserYield("U:seg")
				sol := interp.QuerySolution(q)
				err := sol.Err()
				faulted := r.Out.Faults["read-transient"]+r.Out.Faults["read-dead"] > faultsBefore
				r.Logf("seg %d mode %s: %s -> obs %v err=%s", seg, mode, c19HideTmp(q, tmpDir), obs, kit.CanonErr(err))
				// lockstep comparison
				for n, op := range ops {
					if model.desync {
						break
					}
					if lastKind != "" && lastKind != op.Op {
						changes++
					}
					lastKind = op.Op
					save := *model
					e := model.step(op)
					if n < len(obs) {
						// the op completed and reported obs[n]
						if e.unk {
							if e.cut && obs[n] == "end_of_file" {
								r.Fail("lost-or-repeated", "cut-term-dropped:read_term-answers-end_of_file", "%s delivered end_of_file although a term begins before the end of the input and is cut by it: what was consumed is delivered by no operation and no error says so (source %q, input ends at byte %d, cursor at byte %d before the operation)", c19Desc(sc, ops, n), sc.Source, save.avail, save.pos)
								return
							}
							continue
						}
						if e.fail {
							r.Fail("lost-or-repeated", c19Sig(sc, ops, n, "no-failure"), "%s succeeded with %s although its argument was bound to something that does not come next (source %q, cursor %d)", c19Desc(sc, ops, n), obs[n], sc.Source, save.pos)
							return
						}
						if e.err != "" {
							r.Fail("wrong-eof", c19Sig(sc, ops, n, "no-error"), "%s delivered %s where the model expects %s... (source %q, cursor %d)", c19Desc(sc, ops, n), obs[n], e.err, sc.Source, save.pos)
							return
						}
						if obs[n] != e.val && (e.alt == "" || obs[n] != e.alt) {
							class := "lost-or-repeated"
							if op.Op == "position" {
								class = "wrong-position"
							} else if op.Op == "end_of_stream" || op.Op == "at_end" {
								class = "wrong-end-of-stream"
							} else if e.val == "end_of_file" || e.val == "-1" || obs[n] == "end_of_file" || obs[n] == "-1" {
								class = "wrong-eof"
							}
							want := e.val
							if e.alt != "" {
								want += " or " + e.alt
							}
							r.Fail(class, c19Sig(sc, ops, n, "value"), "%s delivered %s, the model expects %s (source %q, cursor at byte %d before the operation)", c19Desc(sc, ops, n), obs[n], want, sc.Source, save.pos)
							return
						}
						continue
					}
					// op n did not complete: the query ended here
					if n > len(obs) {
						*model = save
						break // ops after the failed one were not executed
					}
					got := kit.CanonErr(err)
					if err == nil {
						got = "failure"
					}
					if e.err != "" && strings.HasPrefix(got, e.err) {
						break
					}
					if e.fail && errors.Is(err, prolog.ErrNoSolutions) {
						break
					}
					if faulted && err != nil {
						// narrow relaxation under injected read faults: the operation may fail, without consuming
						r.Probe("op-failed-on-injected-read-error")
						*model = save
						model.fed = true // whether a reset happened before the failure is not modelled: end_of_stream is not asserted until the next read
						if strings.HasPrefix(op.Op, "read") || op.Op == "skip" {
							model.desync = true
						}
						break
					}
					if e.unk {
						*model = save
						model.desync = true
						break
					}
					class := "wrong-eof"
					if !strings.Contains(got, "past_end_of_stream") {
						class = "op-failed"
					}
					want := e.val
					if e.err != "" {
						want = e.err + "..."
					}
					r.Fail(class, c19Sig(sc, ops, n, "error"), "%s ended with %s, the model expects %s (source %q, cursor at byte %d before the operation)", c19Desc(sc, ops, n), got, want, sc.Source, save.pos)
					return
				}
			}
		})
		status = sched.Drive()
		if status == "cap" {
			sched.Stop()
		}
	})
	r.Steps(sched.StepCount)
	r.Out.Interleaving = sched.Hash()
	switch {
	case other != nil:
		kit.Bug("c19 harness panic: %v", other)
	case status == "blocked":
		r.Fail("blocked", "blocked", "a query on the stream never returned")
	case status == "cap":
		r.Out.Inconclusive = "cap"
	case leftover || len(sched.Alive()) > 0:
		r.Fail("leak", "search-goroutine-alive", "search goroutines %v still alive after all queries were closed", sched.Alive())
	}
	r.Out.NonTrivial = changes >= 1 && (dev.Reads >= 2 || sc.Config == "file")
	if dev.SawSplit {
		r.Probe("rune-split-across-reads")
	}
	if len(src.Bytes) > 4096 && model.pos > 4096 {
		r.Probe("bufio-refill-past-4096")
	}
	b, _ := json.Marshal(sc)
	r.Out.ScenarioKey = string(b) + fmt.Sprintf("|%x", sched.Hash())
}

type statReader struct{ *kit.SimReader }

func (s statReader) Stat() (os.FileInfo, error) { return statInfo{int64(len(s.Src))}, nil }

type statInfo struct{ size int64 }

func (i statInfo) Name() string       { return "sim" }
func (i statInfo) Size() int64        { return i.size }
func (i statInfo) Mode() os.FileMode  { return 0o444 }
func (i statInfo) ModTime() time.Time { return time.Time{} }
func (i statInfo) IsDir() bool        { return false }
func (i statInfo) Sys() interface{}   { return nil }

// c19Sig builds a stable signature: configuration facts that matter + the failing op and its predecessor kind.
func c19Sig(sc *c19Scenario, ops []c19Op, n int, what string) string {
	cat := func(op string) string {
		switch {
		case strings.HasPrefix(op, "wrong:"):
			return "wrong-type"
		case strings.HasPrefix(op, "mismatch:"):
			return "peek-mismatch"
		case strings.HasPrefix(op, "eofarg:"):
			return "bound-eof-argument"
		case strings.HasPrefix(op, "peek"):
			return "peek"
		case strings.HasPrefix(op, "get"), op == "skip":
			return "get"
		case strings.HasPrefix(op, "read"):
			return "read"
		case op == "position":
			return "position"
		case op == "end_of_stream", op == "at_end":
			return "eos"
		}
		return op
	}
	prev := "start"
	if n > 0 {
		prev = cat(ops[n-1].Op)
	}
	return fmt.Sprintf("%s:%s<-%s", what, cat(ops[n].Op), prev)
}

func c19Desc(sc *c19Scenario, ops []c19Op, n int) string {
	var names []string
	for _, o := range ops[:n+1] {
		names = append(names, o.Op)
	}
	return fmt.Sprintf("operation %d (%s) of the query [%s] (delivery %s, %s stream, %s, eof_action %s)", n+1, ops[n].Op, strings.Join(names, ", "), sc.Modes[ops[n].Seg], sc.Type, sc.Config, sc.EOFAction)
}

// ---- output side ----

var c19OutTerms = []string{"foo", "'A b'", "f(a,b)", "[1,2,3]", "1+2*3", "- 1", "'\\n'", "\"ab\"", "g(x,y,z)", "'日本'", "{x}", "(a:-b,c)", "1.5", "-(-(1))", "[a|b]"}

func c19GenOutput(g *kit.Lane, sc *c19Scenario) {
	sc.Policy = g.Choose(kit.NumPolicies)
	sc.Type = "text"
	switch g.Choose(6) {
	case 0:
		sc.Type = "binary" // second stream binary
	case 1:
		sc.Type = "file-write" // second stream: a file opened by open/4 in write mode (real temporary file)
	case 2:
		sc.Type = "file-append" // ... in append mode, on a file that already has content
	}
	sc.Faults = "none"
	if g.Choose(3) == 0 {
		sc.Faults = []string{"fail-before", "short", "dead"}[g.Choose(3)]
	}
	n := 1 + g.Choose(14)
	seg, segLeft := 0, 0
	for i := 0; i < n; i++ {
		if segLeft == 0 {
			mode := []string{"Q", "D", "W"}[g.Weighted(4, 4, 2)]
			sc.Modes = append(sc.Modes, mode)
			segLeft = 1
			if mode != "Q" {
				segLeft = 1 + g.Choose(5)
			}
			if i > 0 {
				seg++
			}
		}
		target := 1 + g.Choose(2)
		mode := sc.Modes[seg]
		if mode == "W" {
			target = 1
		}
		var op string
		s := fmt.Sprintf("S%d", target)
		if target == 2 && sc.Type == "binary" {
			switch g.Choose(3) {
			case 0, 1:
				op = fmt.Sprintf("put_byte(%s, %d)", s, g.Choose(256))
			default:
				op = fmt.Sprintf("flush_output(%s)", s)
			}
		} else {
			k := g.Choose(7)
			t := c19OutTerms[g.Choose(len(c19OutTerms))]
			c := []string{"a", "' '", "'é'", "'日'", "'\\n'", "x"}[g.Choose(6)]
			names := []string{"put_char", "nl", "write", "writeq", "write_canonical", "print_nothing", "flush_output"}
			switch names[k] {
			case "put_char":
				op = fmt.Sprintf("put_char(%s, %s)", s, c)
				if mode == "W" {
					op = fmt.Sprintf("put_char(%s)", c)
				}
			case "nl":
				op = fmt.Sprintf("nl(%s)", s)
				if mode == "W" {
					op = "nl"
				}
			case "write", "writeq", "write_canonical":
				op = fmt.Sprintf("%s(%s, %s)", names[k], s, t)
				if mode == "W" {
					op = fmt.Sprintf("%s(%s)", names[k], t)
				}
			case "print_nothing":
				op = fmt.Sprintf("write_term(%s, %s, [quoted(true), ignore_ops(true)])", s, t)
			default:
				op = fmt.Sprintf("flush_output(%s)", s)
				if mode == "W" {
					op = "flush_output"
				}
			}
		}
		sc.Out = append(sc.Out, op)
		sc.Ops = append(sc.Ops, c19Op{Op: fmt.Sprintf("out%d", target), Seg: seg})
		segLeft--
	}
}

func c19ExecOutput(r *kit.Run, sc *c19Scenario) {
	lane := r.Tape.Lane("dev:out")
	mk := func(name string, faulty bool) *kit.SimWriter {
		w := &kit.SimWriter{Run: r, Lane: lane}
		if faulty {
			switch sc.Faults {
			case "fail-before":
				w.Cfg.FailAt = 1 + lane.Choose(12)
			case "short":
				w.Cfg.ShortAt = 1 + lane.Choose(12)
			case "dead":
				w.Cfg.DeadAt = 1 + lane.Choose(12)
			}
		}
		return w
	}
	which := lane.Choose(2)
	fileOut := strings.HasPrefix(sc.Type, "file-")
	if fileOut {
		which = 0 // a real file cannot be made to fail: faults go to the first stream
	}
	w1, w2 := mk("w1", sc.Faults != "none" && which == 0), mk("w2", sc.Faults != "none" && which == 1)
	var tmpDir string
	if fileOut {
		d, err := os.MkdirTemp("", "verif-c19-out-")
		if err != nil {
			kit.Bug("c19 tempdir: %v", err)
		}
		tmpDir = d
		defer os.RemoveAll(d)
	}
	const c19Pre = "earlier content\n"
	fileSink := func(name string) []byte {
		b, err := os.ReadFile(filepath.Join(tmpDir, name))
		if err != nil {
			kit.Bug("c19 read back: %v", err)
		}
		if sc.Type == "file-append" {
			if !strings.HasPrefix(string(b), c19Pre) {
				return []byte("<the file's earlier content was damaged: " + string(b) + ">")
			}
			b = b[len(c19Pre):]
		}
		return b
	}
	// fault-free twin for renderings
	t1, t2 := &kit.SimWriter{Run: r}, &kit.SimWriter{Run: r}
	build := func(a, b io.Writer, file string) *prolog.Interpreter {
		interp := prolog.New(strings.NewReader(""), a)
		if fileOut {
			path := filepath.Join(tmpDir, file)
			mode := "write"
			if sc.Type == "file-append" {
				mode = "append"
				if err := os.WriteFile(path, []byte(c19Pre), 0o644); err != nil {
					kit.Bug("c19 temp file: %v", err)
				}
			}
			if err := interp.QuerySolution(fmt.Sprintf("open('%s', %s, _, [alias(fo)]).", path, mode)).Err(); err != nil {
				kit.Bug("c19 open/4 for output: %v", err)
			}
			if err := interp.Exec("sim_out(S) :- stream_property(S, alias(fo))."); err != nil {
				kit.Bug("c19: %v", err)
			}
			return interp
		}
		var s2 *engine.Stream
		if sc.Type == "binary" {
			s2 = engine.NewOutputBinaryStream(b)
		} else {
			s2 = engine.NewOutputTextStream(b)
		}
		interp.Register1(engine.NewAtom("sim_out"), func(vm *engine.VM, s engine.Term, k engine.Cont, env *engine.Env) *engine.Promise {
			return engine.Unify(vm, s, s2, k, env)
		})
		return interp
	}
	sink2 := func(w *kit.SimWriter, file string) []byte {
		if fileOut {
			return fileSink(file)
		}
		return w.Sink
	}
	render := make([][2]string, len(sc.Out))
	sched := kit.NewSched(r, sc.Policy)
	var status string
	leftover, other := kit.Bubble(r.T, func() {
		// fault-free twin: renderings of each op, one query per op, before the scheduler is installed
		twin := build(t1, t2, "twin.txt")
		for i, op := range sc.Out {
			a, b := len(t1.Sink), len(sink2(t2, "twin.txt"))
			if err := twin.QuerySolution("current_output(S1), sim_out(S2), " + op + ".").Err(); err != nil {
				kit.Bug("c19 output twin: %s: %v", op, err)
			}
			render[i] = [2]string{string(t1.Sink[a:]), string(sink2(t2, "twin.txt")[b:])}
		}
		kit.Settle()
		interp := build(w1, w2, "out.txt")
		type snap struct{ a, b, f int }
		var obs []snap
		faults := func() int {
			return r.Out.Faults["write-dead"] + r.Out.Faults["write-fail-before"] + r.Out.Faults["write-short"]
		}
		interp.Register1(engine.NewAtom("obs"), func(_ *engine.VM, _ engine.Term, k engine.Cont, env *engine.Env) *engine.Promise {
			obs = append(obs, snap{len(w1.Sink), len(sink2(w2, "out.txt")), faults()})
			return k(env)
		})
		prolog.SimYield = sched.Yield
		defer func() { prolog.SimYield = nil }()
		sched.Go(func() {
			i := 0
			for i < len(sc.Out) && !r.Failed() {
				seg := sc.Ops[i].Seg
				j := i
				for j < len(sc.Out) && sc.Ops[j].Seg == seg {
					j++
				}
				goals := []string{"current_output(S1)", "sim_out(S2)"}
				for n := i; n < j; n++ {
					goals = append(goals, sc.Out[n], fmt.Sprintf("obs(%d)", n))
				}
				q := strings.Join(goals, ", ") + "."
				obs = obs[:0]
				prev := snap{len(w1.Sink), len(sink2(w2, "out.txt")), faults()}
				sched.UserYield("U:seg")
				err := interp.QuerySolution(q).Err()
				r.Logf("seg %d: %s -> completed %d of %d, err=%s", seg, q, len(obs), j-i, kit.CanonErr(err))
				for n := i; n < j; n++ {
					k := n - i
					want := render[n]
					if k < len(obs) {
						cur := obs[k]
						da, db := string(w1.Sink[prev.a:cur.a]), string(sink2(w2, "out.txt")[prev.b:cur.b])
						if cur.f > prev.f {
							r.Fail("write-error-swallowed", "write-error-swallowed:"+c19OutName(sc.Out[n]), "%s succeeded although the sink refused (part of) its output: sink got %q, complete rendering %q", sc.Out[n], da+db, want[0]+want[1])
							return
						}
						if da != want[0] || db != want[1] {
							r.Fail("output-mismatch", "output-differs:"+c19OutName(sc.Out[n]), "%s: sinks received %q / %q, expected %q / %q", sc.Out[n], da, db, want[0], want[1])
							return
						}
						prev = cur
						continue
					}
					if k > len(obs) {
						break
					}
					// the op that ended the query
					cur := snap{len(w1.Sink), len(sink2(w2, "out.txt")), faults()}
					da, db := string(w1.Sink[prev.a:cur.a]), string(sink2(w2, "out.txt")[prev.b:cur.b])
					if cur.f == prev.f {
						r.Fail("op-failed", "output-op-failed:"+c19OutName(sc.Out[n]), "%s ended with %s although no write fault was injected", sc.Out[n], kit.CanonErr(err))
						return
					}
					if !strings.HasPrefix(want[0], da) || !strings.HasPrefix(want[1], db) {
						r.Fail("output-mismatch", "output-not-a-prefix:"+c19OutName(sc.Out[n]), "%s failed on an injected write error; sinks received %q / %q which is not a prefix of %q / %q", sc.Out[n], da, db, want[0], want[1])
						return
					}
				}
				i = j
			}
			if fileOut && !r.Failed() {
				// closing must lose nothing: the whole file equals the concatenation of what was written to it
				want := ""
				done := 0
				for n := range sc.Out {
					want += render[n][1]
					done++
				}
				before := string(sink2(w2, "out.txt"))
				if err := interp.QuerySolution("close(fo).").Err(); err != nil {
					r.Fail("op-failed", "close-failed", "close(fo) raised %s", kit.CanonErr(err))
					return
				}
				if got := string(sink2(w2, "out.txt")); got != before || (sc.Faults == "none" && got != want) {
					r.Fail("output-mismatch", "file-content-after-close", "after close/1 the file holds %q; before it held %q; everything written to it: %q", got, before, want)
				}
			}
		})
		status = sched.Drive()
		if status == "cap" {
			sched.Stop()
		}
	})
	r.Steps(sched.StepCount)
	r.Out.Interleaving = sched.Hash()
	switch {
	case other != nil:
		kit.Bug("c19 output harness panic: %v", other)
	case status == "blocked":
		r.Fail("blocked", "blocked", "a query writing to a stream never returned")
	case status == "cap":
		r.Out.Inconclusive = "cap"
	case leftover || len(sched.Alive()) > 0:
		r.Fail("leak", "search-goroutine-alive", "search goroutines %v still alive after all queries were closed", sched.Alive())
	}
	r.Out.NonTrivial = w1.Writes+w2.Writes >= 3 && w1.Writes > 0 && w2.Writes > 0
	if fileOut {
		r.Out.NonTrivial = w1.Writes > 0 && len(render) >= 3
		r.Probe("output-to-file-opened-by-open/4")
	}
	b, _ := json.Marshal(sc)
	r.Out.ScenarioKey = string(b) + fmt.Sprintf("|%x", sched.Hash())
}

func c19OutName(op string) string {
	if i := strings.IndexByte(op, '('); i > 0 {
		return op[:i]
	}
	return op
}

func c19HideTmp(q, dir string) string {
	if dir == "" {
		return q
	}
	return strings.ReplaceAll(q, dir, "<tmp>")
}
