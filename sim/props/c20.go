package props

import (
	"encoding/json"
	"fmt"
	"io"
	"io/fs"
	"sort"
	"strings"

	"verif/sim/kit"

	"github.com/ichiban/prolog"
	"github.com/ichiban/prolog/engine"
)

// ---------------------------------------------------------------------------
// C20 — loading defines clauses in source order; a failed load defines nothing
// ---------------------------------------------------------------------------

type c20 struct{}

func init() { Register(c20{}) }

func (c20) ID() string { return "C20" }

func (c20) Meta() kit.Meta {
	return kit.Meta{
		Level: "fault_enumeration",
		Rule: "a case = a session of 1..5 loads onto one interpreter; each load is a text generated from a structured item list (clauses of 4 predicates with unique stamps, contiguous or interleaved, dynamic/discontiguous/multifile declarations, harmless and observable directives incl. op/3 followed by clauses that need the operator, initialization goals that list a predicate) delivered through Exec, consult/1, ensure_loaded/1, [F] or :- include(F) over a simulated fs.FS, with at most one fault: stray token / malformed clause inserted at an item position, non-callable clause, clause displaced behind another predicate's clause, file truncated inside a clause (torn write), damaged byte, unreadable / missing file, read error while the file is read; a failed consult may be followed by a consult of the same path with repaired content. " +
			"distinct = distinct (session texts, paths, faults). non-trivial = a fault hit a load after at least one clause of that text had been staged, or a load replaced / extended an earlier definition. " +
			"thorough enumerates, for 3000 generated sessions, every fault kind at 40 positions of the last text (every item position for item-level faults; evenly spread byte offsets for truncation and byte damage).",
		Assumptions: []string{
			"staged-commit model working on the item list (no parser): a load that returns nil defines exactly the complete items of the delivered text, replacing earlier definitions unless multifile in both; a load that returns an error leaves the database exactly as dumped before the load",
			"'the load must fail' is asserted only for unambiguous faults (a complete malformed read-term, a non-callable clause, an undeclared discontiguity, an unreadable or missing file, a cut inside the argument list of a clause); tail damage that turns the rest of the text into one unterminated token is only checked for 'error => unchanged' and 'nil => all complete items defined'",
			"whether directives that precede the fault ran, and whether their operator effects persist, is not asserted; for a failed load only 'no initialization goal ran' is asserted",
		},
		Real: []string{"Interpreter.Exec", "engine.VM.Compile / compile / directive / flush / ensureLoaded / open", "consult/1, ensure_loaded/1, include/1, initialization/1, dynamic/1, discontiguous/1, multifile/1", "parser and lexer on the delivered text", "fs.ReadFile over the simulated fs.FS"},
		Stub: []string{"fs.FS (SimFS: seeded chunking, open errors, read errors)", "the stored file content (truncated / damaged by the fault plan)"},
	}
}

func (c20) Phases() []kit.Phase {
	return []kit.Phase{
		{Name: "sampled", Count: func(tier string) uint64 {
			if tier == "thorough" {
				return 400000
			}
			return 25000
		}},
		{Name: "enum-faults", Exhaustive: true,
			Space: "3000 generated sessions x 8 fault kinds x 40 positions of the last text",
			Count: func(tier string) uint64 {
				if tier == "thorough" {
					return 3000 * 8 * 40
				}
				return 0
			},
			Tape: func(base, i uint64) *kit.Tape {
				t := kit.NewTape(kit.RunSeed(base, "C20/session", i/320))
				t.Fixed, _ = json.Marshal(map[string]int{"kind": int(i/40) % 8, "pos": int(i % 40)})
				return t
			}},
	}
}

// ---- items ----

type c20Item struct {
	Kind  string `json:"kind"` // clause decl dir note op init-note init-list bad
	Pred  int    `json:"pred,omitempty"`
	K     int    `json:"k,omitempty"`
	Stamp string `json:"stamp,omitempty"`
	Decl  string `json:"decl,omitempty"`
	J     int    `json:"j,omitempty"`
	Text  string `json:"text"`
	From  int    `json:"from_load,omitempty"` // 1 + id of the load whose text this item was written for, when it is not the load that runs it
}

var c20Faults = []string{"none", "stray", "noncallable", "displaced", "truncate", "damage-paren", "damage-quote", "unreadable", "read-error", "torn-token"}

type c20Load struct {
	ID      int       `json:"id"`   // generation index: appears in stamps and notes
	Path    string    `json:"path"` // exec | consult | ensure_loaded | list | include | query-consult
	File    string    `json:"file,omitempty"`
	Items   []c20Item `json:"items"`
	Fault   string    `json:"fault"`
	Pos     int       `json:"pos"`
	Text    string    `json:"text"`
	Outer   string    `json:"outer_text,omitempty"`                  // include: the including text
	ReuseOf int       `json:"include_reuses_file_of_load,omitempty"` // include: the included file is the one an earlier load consulted (1-based index)
	ItemsA  []c20Item `json:"first_file_items,omitempty"`            // list2: the undamaged file consulted before this one in the same call
	Repair  bool      `json:"repair,omitempty"`                      // same file as the previous (failed) consult, with good content
	OpenErr string    `json:"open_err,omitempty"`
}

type c20Scenario struct {
	Loads   []c20Load `json:"loads"`
	Profile int       `json:"fs_chunk_profile"`
}

func c20Clause(pred, k int, stamp string, g *kit.Lane) c20Item {
	it := c20Item{Kind: "clause", Pred: pred, K: k, Stamp: stamp}
	switch g.Choose(4) {
	case 0, 1:
		it.Text = fmt.Sprintf("p%d(%d, %s).", pred, k, stamp)
	case 2:
		it.Text = fmt.Sprintf("p%d(%d, %s) :- true.", pred, k, stamp)
	default:
		it.Text = fmt.Sprintf("p%d(%d, %s) :-\n    K = %d, K > 0.", pred, k, stamp, k+1)
	}
	return it
}

// c20GenText generates the item list of one text. stampBase makes stamps unique per session.
func c20GenText(g *kit.Lane, load int) []c20Item {
	var items []c20Item
	stamp := 0
	next := func() string { stamp++; return fmt.Sprintf("s%d_%d", load, stamp) }
	// declarations first
	declared := map[int]map[string]bool{}
	for p := 1; p <= 4; p++ {
		declared[p] = map[string]bool{}
		for _, d := range []string{"dynamic", "discontiguous", "multifile"} {
			if g.Choose(6) == 0 {
				declared[p][d] = true
				items = append(items, c20Item{Kind: "decl", Pred: p, Decl: d, Text: fmt.Sprintf(":- %s(p%d/2).", d, p)})
			}
		}
	}
	// runs of clauses; a predicate appears in one run unless declared discontiguous
	order := []int{1, 2, 3, 4}
	for i := range order {
		j := i + g.Choose(len(order)-i)
		order[i], order[j] = order[j], order[i]
	}
	nPreds := g.Choose(5)
	var runs [][]c20Item
	for _, p := range order[:nPreds] {
		n := 1 + g.Choose(4)
		var run []c20Item
		for k := 1; k <= n; k++ {
			run = append(run, c20Clause(p, k, next(), g))
		}
		if declared[p]["discontiguous"] && n >= 2 && g.Choose(2) == 0 {
			cut := 1 + g.Choose(n-1)
			runs = append(runs, run[:cut], run[cut:])
		} else {
			runs = append(runs, run)
		}
	}
	// shuffle runs of discontiguous predicates among the others, keeping relative order per predicate
	for i := len(runs) - 1; i > 0; i-- {
		j := g.Choose(i + 1)
		if runs[i][0].Pred != runs[j][0].Pred {
			ok := true
			lo, hi := j, i
			for x := lo; x <= hi; x++ {
				if x != i && x != j && (runs[x][0].Pred == runs[i][0].Pred || runs[x][0].Pred == runs[j][0].Pred) {
					ok = false
				}
			}
			if ok {
				runs[i], runs[j] = runs[j], runs[i]
			}
		}
	}
	// two adjacent runs of the same predicate would be one run: fine either way
	jn := 0
	dir := func() c20Item {
		jn++
		switch g.Choose(6) {
		case 0:
			return c20Item{Kind: "dir", Text: ":- true."}
		case 1:
			return c20Item{Kind: "dir", Text: ":- X = 1, X > 0."}
		case 2:
			return c20Item{Kind: "note", J: jn, Text: fmt.Sprintf(":- note(d(%d, %d)).", load, jn)}
		case 3:
			return c20Item{Kind: "init-note", J: jn, Text: fmt.Sprintf(":- initialization(note(i(%d, %d))).", load, jn)}
		case 4:
			p := 1 + g.Choose(4)
			return c20Item{Kind: "init-list", Pred: p, J: jn, Text: fmt.Sprintf(":- initialization((catch(findall(K-S, p%d(K, S), L), error(existence_error(_, _), _), L = undefined), note(s(%d, %d, L)))).", p, load, jn)}
		default:
			return c20Item{Kind: "op", Text: ":- op(700, xfx, ===)."}
		}
	}
	opSeen := false
	for ri, run := range runs {
		// directives only between runs of different predicates (a directive between two clauses of one predicate
		// makes them non-consecutive read-terms; whether that is a discontiguity the statement does not say)
		if g.Choose(3) == 0 && (ri == 0 || runs[ri-1][0].Pred != run[0].Pred) {
			d := dir()
			if d.Kind == "op" {
				opSeen = true
			}
			items = append(items, d)
		}
		for _, c := range run {
			if opSeen && g.Choose(3) == 0 {
				// a clause that only parses with the operator defined by the directive above
				c.Text = fmt.Sprintf("p%d(%d, %s) :- a === a.", c.Pred, c.K, c.Stamp)
				c.Text = strings.Replace(c.Text, "a === a", "true, _ = (a === b)", 1)
			}
			items = append(items, c)
		}
	}
	if g.Choose(3) == 0 {
		items = append(items, dir())
	}
	return items
}

// ---- model ----

type c20Pred struct {
	defined   bool
	dynamic   bool
	multifile bool
	clauses   []string // "k-stamp"
}

type c20DB map[int]*c20Pred

func (db c20DB) clone() c20DB {
	c := c20DB{}
	for k, v := range db {
		p := *v
		p.clauses = append([]string(nil), v.clauses...)
		c[k] = &p
	}
	return c
}

func (db c20DB) dump() string {
	var parts []string
	for p := 1; p <= 4; p++ {
		d := db[p]
		if d == nil || !d.defined {
			parts = append(parts, fmt.Sprintf("p%d=undefined", p))
			continue
		}
		dyn := "static"
		if d.dynamic {
			dyn = "dynamic"
		}
		parts = append(parts, fmt.Sprintf("p%d=%s[%s]", p, dyn, strings.Join(d.clauses, ",")))
	}
	return strings.Join(parts, " ")
}

// c20Apply commits the complete items of a text to the model and returns the expected note log.
func c20Apply(db c20DB, items []c20Item, load int) (c20DB, []string) {
	out := db.clone()
	staged := map[int]*c20Pred{}
	get := func(p int) *c20Pred {
		if staged[p] == nil {
			staged[p] = &c20Pred{defined: true}
		}
		return staged[p]
	}
	var notes []string
	var inits []c20Item
	for _, it := range items {
		switch it.Kind {
		case "clause":
			s := get(it.Pred)
			s.clauses = append(s.clauses, fmt.Sprintf("%d-%s", it.K, it.Stamp))
		case "decl":
			s := get(it.Pred)
			switch it.Decl {
			case "dynamic":
				s.dynamic = true
			case "multifile":
				s.multifile = true
			}
		case "note":
			notes = append(notes, fmt.Sprintf("d(%d,%d)", it.load(load), it.J))
		case "init-note", "init-list":
			inits = append(inits, it)
		}
	}
	var preds []int
	for p := range staged {
		preds = append(preds, p)
	}
	sort.Ints(preds)
	for _, p := range preds {
		s := staged[p]
		if ex := out[p]; ex != nil && ex.defined && ex.multifile && s.multifile {
			ex.clauses = append(ex.clauses, s.clauses...)
			continue
		}
		out[p] = s
	}
	for _, it := range inits {
		if it.Kind == "init-note" {
			notes = append(notes, fmt.Sprintf("i(%d,%d)", it.load(load), it.J))
			continue
		}
		l := "undefined"
		if d := out[it.Pred]; d != nil && d.defined {
			var xs []string
			for _, c := range d.clauses {
				xs = append(xs, "-("+strings.Replace(c, "-", ",", 1)+")")
			}
			l = "[" + strings.Join(xs, ",") + "]"
		}
		notes = append(notes, fmt.Sprintf("s(%d,%d,%s)", it.load(load), it.J, l))
	}
	return out, notes
}

// ---- generation of a session ----

func c20Gen(r *kit.Run) *c20Scenario {
	g := r.Tape.Lane("gen")
	sc := &c20Scenario{Profile: g.Choose(kit.NumChunkProfiles)}
	n := 1 + g.Choose(5)
	fixedKind, fixedPos := -1, 0
	if r.Tape.Fixed != nil {
		var f struct{ Kind, Pos int }
		if err := json.Unmarshal(r.Tape.Fixed, &f); err != nil {
			kit.Bug("c20 fixed: %v", err)
		}
		fixedKind, fixedPos = f.Kind+1, f.Pos
	}
	for li := 0; li < n; li++ {
		ld := c20Load{Fault: "none", ID: li}
		ld.Path = []string{"exec", "consult", "ensure_loaded", "list", "include", "query-consult", "list2"}[g.Weighted(4, 3, 1, 1, 2, 1, 2)]
		ld.File = fmt.Sprintf("f%d", li)
		ld.Items = c20GenText(g, li)
		if ld.Path == "list2" {
			ld.ItemsA = c20GenText(g, 100+li) // consult([fNa, fN]): two texts in one call, each all-or-nothing on its own
		}
		reuse := 0
		if ld.Path == "include" && g.Choose(3) == 0 {
			// include a file that an earlier load of this session consulted: it must be read again, whatever marks exist
			var cands []int
			for j, e := range sc.Loads {
				if (e.Path == "consult" || e.Path == "ensure_loaded" || e.Path == "list" || e.Path == "query-consult") && e.Fault == "none" && !e.Repair {
					cands = append(cands, j)
				}
			}
			if len(cands) > 0 {
				reuse = 1 + cands[g.Choose(len(cands))]
			}
		}
		fk := 0
		if g.Choose(2) == 0 {
			fk = 1 + g.Choose(len(c20Faults)-1)
		}
		pos := g.Choose(1000)
		if fixedKind >= 0 {
			fk = 0
			if li == n-1 {
				fk, pos = fixedKind, fixedPos
			}
		}
		ld.Fault, ld.Pos = c20Faults[fk], pos
		if reuse > 0 {
			ld.ReuseOf, ld.Fault = reuse, "none"
		}
		if ld.Path == "exec" && (ld.Fault == "unreadable" || ld.Fault == "read-error") {
			ld.Path = "consult"
		}
		sc.Loads = append(sc.Loads, ld)
		if ld.Fault != "none" && ld.Path != "exec" && ld.Path != "include" && ld.Path != "list2" && g.Choose(2) == 0 && fixedKind < 0 {
			// repair: consult the same path again with the undamaged content
			rp := ld
			rp.Fault, rp.Repair = "none", true
			sc.Loads = append(sc.Loads, rp)
		}
	}
	return sc
}

// c20Damage applies the fault of a load to its item list. It returns the pieces to deliver (items, possibly one of them
// malformed, damaged or cut short, in which case nothing follows it), the index of that piece (-1 if none), the items that
// are complete in the delivered text (what a successful load must define), whether the load must fail and whether clauses
// of this text precede the fault.
func c20Damage(ld *c20Load) (pieces []c20Item, damaged int, complete []c20Item, mustFail bool, staged bool) {
	items := ld.Items
	countClauses := func(its []c20Item) int {
		n := 0
		for _, it := range its {
			if it.Kind == "clause" {
				n++
			}
		}
		return n
	}
	none := func() ([]c20Item, int, []c20Item, bool, bool) {
		return items, -1, items, false, false
	}
	switch ld.Fault {
	case "none", "unreadable", "read-error":
		return none()
	case "stray", "noncallable":
		bad := []string{"foo bar.", "p1(1 2).", "p2(a,).", ") .", "p3 :- .", "p4(1, s)) .", "[a|b|c].", "p1(1, s) :- (a."}
		if ld.Fault == "noncallable" {
			bad = []string{"42.", "foo :- 1.", "p1(1, s) :- 2.", "3.14.", "p2(1, s) :- true, 3, true.", "p3(1, s) :- 4, true.", "foo :- a, 6, b.",
				// a number as a goal inside nested control constructs is no more callable than at the top of the body
				"foo :- (a, 7), b.", "p1(1, s) :- (true -> 8 ; true).", "p2(1, s) :- (9 ; true), true.", "p3(1, s) :- true, (true, (true ; 10))."}
		}
		at := ld.Pos % (len(items) + 1)
		its := append(append(append([]c20Item(nil), items[:at]...), c20Item{Kind: "bad", Text: bad[ld.Pos/(len(items)+1)%len(bad)]}), items[at:]...)
		return its, at, items, true, countClauses(items[:at]) > 0
	case "displaced":
		// move one clause of a predicate that is not declared discontiguous behind a clause of another predicate
		disc := map[int]bool{}
		for _, it := range items {
			if it.Kind == "decl" && it.Decl == "discontiguous" {
				disc[it.Pred] = true
			}
		}
		var cands []int
		for i, it := range items {
			if it.Kind == "clause" && !disc[it.Pred] {
				cands = append(cands, i)
			}
		}
		if len(cands) == 0 {
			ld.Fault = "none"
			return none()
		}
		ci := cands[ld.Pos%len(cands)]
		c := items[ci]
		others := 0
		for i, it := range items {
			if i != ci && it.Kind == "clause" && it.Pred == c.Pred {
				others++
			}
		}
		rest := append(append([]c20Item(nil), items[:ci]...), items[ci+1:]...)
		var spots []int
		for i, it := range rest {
			if it.Kind == "clause" && it.Pred != c.Pred {
				right := i+1 >= len(rest) || !(rest[i+1].Kind == "clause" && rest[i+1].Pred == c.Pred)
				if right {
					spots = append(spots, i)
				}
			}
		}
		if others == 0 || len(spots) == 0 {
			ld.Fault = "none"
			return none()
		}
		sp := spots[(ld.Pos/len(cands))%len(spots)]
		its := append(append(append([]c20Item(nil), rest[:sp+1]...), c), rest[sp+1:]...)
		return its, -1, its, true, true
	case "torn-token":
		// a torn write that ends the text inside a token which starts at a clause boundary: the clauses before it are all
		// complete, the text is not
		cutAt := ld.Pos % (len(items) + 1)
		for cutAt > 0 && cutAt < len(items) && items[cutAt-1].Kind == "clause" && items[cutAt].Kind == "clause" && items[cutAt-1].Pred == items[cutAt].Pred {
			cutAt--
		}
		tok := []string{"'abc", "\"abc", "0'", "'a\\", "p1('x", "/* abc", "/* abc *"}[(ld.Pos/(len(items)+1))%7]
		its := append(append([]c20Item(nil), items[:cutAt]...), c20Item{Kind: "partial", Text: tok})
		return its, cutAt, items[:cutAt], true, countClauses(items[:cutAt]) > 0
	case "truncate", "damage-paren", "damage-quote":
		var cl []int
		for i, it := range items {
			if it.Kind == "clause" {
				cl = append(cl, i)
			}
		}
		if len(cl) == 0 {
			ld.Fault = "none"
			return none()
		}
		ci := cl[ld.Pos%len(cl)]
		it := items[ci]
		q := strings.IndexByte(it.Text, ',')
		switch ld.Fault {
		case "truncate":
			// a torn write: the text ends inside the argument list of a clause (after '(' or after the first ',')
			cut := q + 1
			if (ld.Pos/len(cl))%2 == 0 {
				cut = strings.IndexByte(it.Text, '(') + 1
			}
			its := append(append([]c20Item(nil), items[:ci]...), c20Item{Kind: "partial", Text: it.Text[:cut]})
			return its, ci, items[:ci], true, countClauses(items[:ci]) > 0
		case "damage-paren":
			b := []byte(it.Text)
			b[q] = ')' // p1(1) s1_1). : two terms in a row, then a stray ')'
			its := append([]c20Item(nil), items...)
			its[ci] = c20Item{Kind: "bad", Text: string(b)}
			return its, ci, items, true, countClauses(items[:ci]) > 0
		default:
			b := []byte(it.Text)
			b[q] = '\'' // an unterminated quoted atom swallows the rest of the text: tail damage, 'must fail' is not asserted
			its := append([]c20Item(nil), items...)
			its[ci] = c20Item{Kind: "bad", Text: string(b)}
			return its, ci, items[:ci], false, countClauses(items[:ci]) > 0
		}
	}
	kit.Bug("c20: unknown fault %q", ld.Fault)
	return nil, -1, nil, false, false
}

// c20Join renders pieces; a piece cut short ("partial") ends the text.
func c20Join(pieces []c20Item, g *kit.Lane) string {
	var sb strings.Builder
	for _, it := range pieces {
		sb.WriteString(it.Text)
		if it.Kind == "partial" {
			break
		}
		sb.WriteString([]string{"\n", "\n\n", " ", "\n% a comment. with dots.\n", "  % c\n"}[g.Choose(5)])
	}
	return sb.String()
}

// ---- execution ----

func (c20) Exec(r *kit.Run) {
	sc := c20Gen(r)
	g := r.Tape.Lane("gen")
	fsys := kit.NewSimFS(r, r.Tape.Lane("dev:fs"))
	fsys.Profile = sc.Profile
	interp := prolog.New(strings.NewReader(""), io.Discard)
	interp.FS = fsys
	fsys.Files["lib.pl"] = []byte(":- multifile(lib_hook/1).\nlib_hook(l).\n:- dynamic(lib_cnt/1).\nlib_cnt(0).\n")
	var notes []string
	interp.Register1(engine.NewAtom("note"), func(_ *engine.VM, t engine.Term, k engine.Cont, env *engine.Env) *engine.Promise {
		notes = append(notes, kit.CanonTerm(t, env, kit.NewRenamer()))
		return k(env)
	})

	dump := func() string {
		var parts []string
		for p := 1; p <= 4; p++ {
			sol := interp.QuerySolution(fmt.Sprintf("catch(findall(K-S, p%d(K, S), L), error(existence_error(_, _), _), L = undefined), catch((clause(p%d(_, _), _) -> D = dynamic ; D = dynamic), error(permission_error(_, _, _), _), D = static).", p, p))
			if err := sol.Err(); err != nil {
				return fmt.Sprintf("p%d=ERROR(%v)", p, err)
			}
			v := kit.NewVars()
			sol.Scan(v)
			l := v.Get("L")
			if l == "undefined" {
				parts = append(parts, fmt.Sprintf("p%d=undefined", p))
				continue
			}
			// L = [-(1,s0_1),...] -> 1-s0_1
			l = strings.NewReplacer("-(", "", ")", "").Replace(strings.Trim(l, "[]"))
			var xs []string
			f := strings.Split(l, ",")
			for i := 0; i+1 < len(f); i += 2 {
				xs = append(xs, f[i]+"-"+f[i+1])
			}
			parts = append(parts, fmt.Sprintf("p%d=%s[%s]", p, v.Get("D"), strings.Join(xs, ",")))
		}
		return strings.Join(parts, " ")
	}

	model := c20DB{}
	loaded := map[string]bool{} // paths consulted successfully (a second consult is a no-op)
	okLoad := map[int]bool{}    // loads that returned nil
	staged := false
	for li := range sc.Loads {
		ld := &sc.Loads[li]
		pieces, damaged, complete, mustFail, st := c20Damage(ld)
		text := ""
		outer := ""
		if ld.Path == "include" && ld.ReuseOf > 0 && okLoad[ld.ReuseOf-1] {
			// the included file is the one load ReuseOf consulted (its content is still in the file system); this text's own
			// items must not touch that file's predicates (they would be discontiguous)
			re := &sc.Loads[ld.ReuseOf-1]
			used := map[int]bool{}
			for _, it := range re.Items {
				if it.Pred > 0 {
					used[it.Pred] = true
				}
			}
			var own []c20Item
			for _, it := range ld.Items {
				if it.Pred > 0 && used[it.Pred] {
					continue
				}
				own = append(own, it)
			}
			c1 := g.Choose(len(own) + 1)
			for c1 > 0 && c1 < len(own) && own[c1-1].Kind == "clause" && own[c1].Kind == "clause" && own[c1-1].Pred == own[c1].Pred {
				c1--
			}
			outer = c20Join(own[:c1], g) + ":- include(" + re.File + ").\n" + c20Join(own[c1:], g)
			ld.Outer = outer
			// the model sees one text: own items before, the file's items, own items after. Notes of the file's directives
			// carry the file's load id, which c20Apply takes from the items' texts, not from the load: rebuild per item
			complete = append(append(append([]c20Item(nil), own[:c1]...), c20Relabel(re.Items, re.ID, ld.ID)...), own[c1:]...)
			pieces, damaged, mustFail, st = nil, -1, false, true
			r.Probe("include-of-a-file-consulted-earlier")
			ld.File = re.File
			text = string(fsys.Files[re.File+".pl"])
			ld.Text = text
		} else if ld.Path == "include" {
			// the text is split over an including text and the included file; cuts only at run boundaries (an include
			// directive between two clauses of one predicate would make them non-consecutive), and a piece that swallows
			// or ends the text stays in the last part
			var cuts []int
			for i := 0; i <= len(pieces); i++ {
				if i > 0 && i < len(pieces) && pieces[i-1].Kind == "clause" && pieces[i].Kind == "clause" && pieces[i-1].Pred == pieces[i].Pred {
					continue
				}
				if damaged >= 0 && (ld.Fault == "truncate" || ld.Fault == "damage-quote" || ld.Fault == "torn-token") && i > damaged {
					continue
				}
				cuts = append(cuts, i)
			}
			c1 := cuts[g.Choose(len(cuts))]
			c2 := cuts[g.Choose(len(cuts))]
			if c1 > c2 {
				c1, c2 = c2, c1
			}
			text = c20Join(pieces[c1:c2], g)
			outer = c20Join(pieces[:c1], g) + ":- include(" + ld.File + ").\n" + c20Join(pieces[c2:], g)
			ld.Outer = outer
		} else {
			text = c20Join(pieces, g)
		}
		if (ld.Path == "consult" || ld.Path == "ensure_loaded" || ld.Path == "list" || ld.Path == "query-consult") && g.Choose(3) == 0 {
			// the file first asks for a library file (a text of its own: it is loaded and stays loaded whatever happens to
			// the rest of this one)
			text = ":- ensure_loaded(lib).\n" + text
			r.Probe("file-that-loads-a-library-first")
		}
		ld.Text = text
		before := dump()
		if before != model.dump() {
			kit.Bug("c20: model and database disagree before load %d: db %s, model %s", li, before, model.dump())
		}
		notes = notes[:0]
		file := ld.File + ".pl"
		var err error
		switch ld.Path {
		case "exec":
			err = interp.Exec(text)
		default:
			fsys.Files[file] = []byte(text)
			delete(fsys.OpenErr, file)
			delete(fsys.ReadErr, file)
			switch ld.Fault {
			case "unreadable":
				switch ld.Pos % 3 {
				case 0:
					fsys.OpenErr[file] = fs.ErrPermission
					ld.OpenErr = "permission"
				case 1:
					delete(fsys.Files, file)
					ld.OpenErr = "missing"
				default:
					fsys.OpenErr[file] = kit.ErrSimIO
					ld.OpenErr = "io"
				}
				mustFail = true
			case "read-error":
				fsys.ReadErr[file] = ld.Pos % (len(text) + 1)
				mustFail = true
			}
			switch ld.Path {
			case "list2":
				fsys.Files[ld.File+"a.pl"] = []byte(c20Join(ld.ItemsA, g))
				err = interp.Exec(fmt.Sprintf(":- consult([%sa, %s]).", ld.File, ld.File))
			case "consult":
				err = interp.Exec(fmt.Sprintf(":- consult(%s).", ld.File))
			case "ensure_loaded":
				err = interp.Exec(fmt.Sprintf(":- ensure_loaded(%s).", ld.File))
			case "list":
				err = interp.Exec(fmt.Sprintf(":- [%s].", ld.File))
			case "include":
				err = interp.Exec(outer)
			case "query-consult":
				err = interp.QuerySolution(fmt.Sprintf("consult(%s).", ld.File)).Err()
			}
		}
		if ld.Fault != "none" {
			r.Fault(ld.Fault)
		}
		after := dump()
		gotNotes := append([]string(nil), notes...)
		// the library file is loaded once, however often and from wherever it is asked for
		if lerr := interp.Exec(":- ensure_loaded(lib).\n"); lerr != nil {
			r.Fail("load-failed", "library-file", "ensure_loaded(lib) after load %d returned %s", li, kit.CanonErr(lerr))
			return
		}
		if sol := interp.QuerySolution("findall(X, lib_hook(X), L), findall(N, lib_cnt(N), C)."); sol.Err() != nil {
			r.Fail("load-failed", "library-file", "the library's predicates after load %d: %s", li, kit.CanonErr(sol.Err()))
			return
		} else {
			v := kit.NewVars()
			sol.Scan(v)
			if again := dump(); again != after {
				r.Fail("db-mismatch", "loading-the-library-changed-other-predicates:via-"+ld.Path, "after load %d (%s, fault %s) the database was\n  %s\nand one ensure_loaded(lib) later it is\n  %s\n(the library file defines none of these predicates)", li, ld.Path, ld.Fault, after, again)
				return
			}
			if v.Get("L") != "[l]" || v.Get("C") != "[0]" {
				r.Fail("db-mismatch", "library-file-loaded-again:via-"+ld.Path, "after load %d (%s, fault %s, returned %s) and one more ensure_loaded(lib), the library's multifile predicate has the clauses %s and its counter %s; the file defines [l] and [0] and is loaded once\n  text: %q", li, ld.Path, ld.Fault, kit.CanonErr(err), v.Get("L"), v.Get("C"), text)
				return
			}
		}
		r.Logf("load %d via %s fault=%s pos=%d -> err=%s\n   db: %s\n   notes: %v", li, ld.Path, ld.Fault, ld.Pos, kit.CanonErr(err), after, gotNotes)
		if ld.Path == "list2" {
			// the first file of the list is undamaged: it is loaded whatever happens to the second one
			mid, notesA := c20Apply(model, ld.ItemsA, 100+ld.ID)
			model = mid
			before = mid.dump()
			loaded[ld.File+"a.pl"] = true
			// what the second file's directives reported follows what the first file reported
			if len(gotNotes) >= len(notesA) && kit.SameList(gotNotes[:len(notesA)], notesA) {
				gotNotes = gotNotes[len(notesA):]
			} else {
				r.Fail("directive-order", "notes-differ:first-file-of-list", "load %d: the first (undamaged) file of the list reported %v, expected %v", li, gotNotes, notesA)
				return
			}
		}
		sig := fmt.Sprintf("%s:via-%s", ld.Fault, ld.Path)
		noOp := ld.Path != "exec" && ld.Path != "include" && loaded[file]
		switch {
		case err != nil:
			// (1a) a failed load defines nothing and changes nothing
			if after != before {
				r.Fail("partial-load", "db-changed-by-failed-load:"+sig, "load %d (%s, fault %s) returned %s but changed the database:\n  before: %s\n  after:  %s\n  text: %q", li, ld.Path, ld.Fault, kit.CanonErr(err), before, after, text)
				return
			}
			for _, n := range gotNotes {
				if strings.HasPrefix(n, "i(") || strings.HasPrefix(n, "s(") {
					r.Fail("partial-load", "init-ran-in-failed-load:"+sig, "load %d failed (%s) but the initialization goal %s ran", li, kit.CanonErr(err), n)
					return
				}
			}
			if !mustFail && ld.Fault == "none" {
				r.Fail("load-failed", "valid-text-rejected:"+sig, "load %d of an undamaged text returned %s\n  text: %q", li, kit.CanonErr(err), text)
				return
			}
			if st {
				staged = true
			}
		case noOp:
			if after != before {
				r.Fail("db-mismatch", "reconsult-of-loaded-file-changed-db:"+sig, "load %d consults a path that is already loaded; database changed from %s to %s", li, before, after)
				return
			}
		default:
			// (1c) must it have failed?
			if mustFail {
				r.Fail("fault-accepted", "faulty-text-accepted:"+sig, "load %d (%s) returned nil although the text has a %s fault at position %d\n  db after: %s\n  text: %q", li, ld.Path, ld.Fault, ld.Pos, after, text)
				return
			}
			// (1b) nil => exactly the complete items are defined, in source order
			want, wantNotes := c20Apply(model, complete, ld.ID)
			if after != want.dump() {
				class := "db-mismatch"
				r.Fail(class, "db-differs-after-load:"+sig, "load %d (%s, fault %s) returned nil; database is\n  %s\nbut the text defines\n  %s\n  (before the load: %s)\n  text: %q", li, ld.Path, ld.Fault, after, want.dump(), before, text)
				return
			}
			if ld.Fault == "none" && !kit.SameList(gotNotes, wantNotes) {
				r.Fail("directive-order", "notes-differ:"+sig, "load %d (%s): directives / initialization goals reported %v, expected %v\n  text: %q", li, ld.Path, gotNotes, wantNotes, text)
				return
			}
			if before != "p1=undefined p2=undefined p3=undefined p4=undefined" && after != before {
				staged = true
			}
			model = want
			okLoad[li] = true
			if ld.Path != "exec" && ld.Path != "include" {
				loaded[file] = true
			}
		}
	}
	r.Out.NonTrivial = staged
	r.Out.Scenario = sc
	b, _ := json.Marshal(sc)
	r.Out.ScenarioKey = string(b)
}

// c20Relabel returns the items of an earlier text as they report when they run as part of another load: their note
// directives print the load id they were written with (it is in their text).
func c20Relabel(items []c20Item, from, to int) []c20Item {
	out := append([]c20Item(nil), items...)
	for i := range out {
		out[i].From = from + 1
	}
	return out
}

func (it c20Item) load(running int) int {
	if it.From > 0 {
		return it.From - 1
	}
	return running
}
