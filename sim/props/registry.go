// Package props holds one check per claimed property.
package props

import (
	"sort"

	"verif/sim/kit"
)

var registry = map[string]kit.Prop{}

func Register(p kit.Prop) { registry[p.ID()] = p }

func Get(id string) kit.Prop { return registry[id] }

func IDs() []string {
	var ids []string
	for k := range registry {
		ids = append(ids, k)
	}
	sort.Strings(ids)
	return ids
}
